(* C14 — transport and radiation outputs are finite and physically admissible.
   What is a theorem: the total emission coefficient (kernel regenerated from functions_radiation.py, C15) is strictly
   positive for positive densities and line data as soon as one line is listed; the single-component un-ionised gas
   viscosity produced by the regenerated qhat blocks and the model's right-hand side / final formula is the textbook
   second-order Chapman-Enskog expression built from the gas's own (2,2), (2,3), (2,4) integrals; the electrical
   conductivity vanishes without charges.  NOT a theorem (validated over the operating window): positivity and
   finiteness of viscosity, thermal conductivity, heat capacity and electrical conductivity of general mixtures with
   the empirical collision integrals (positive-definiteness of the Galerkin matrices is not proved). *)
From Coq Require Import Reals List.
Import ListNotations.
From MPC Require Import Num Species RInst StatMech RVec Radiation GenSpecies GenRadiation GenTransport Transport C12_split C05_blocks C12_split_q C14_proofs C14_quadratic C14_quadratic_k GenMixture C09_proofs.
Open Scope R_scope.

Theorem C14_emission_positive : forall (U : Units R) (T : R) (heavy : list (R * species R)),
  0 < h_pl U -> 0 < c_light U ->
  Forall (entry_ok U T) heavy -> Exists (fun ns => emission_lines (snd ns) <> []) heavy ->
  0 < emission_spec (k_b U) (h_pl U) (c_light U) (species R) (fun s T => Zint RNum U s T 0) (@emission_lines R) T heavy.
Proof. exact emission_positive. Qed.
Print Assumptions C14_emission_positive.

Theorem C14_sigma_zero_without_charges : forall (U : Units R) (rho ntot T : R) (masses nd : nat -> R) (nb : nat) (De : nat -> R),
  sigma_value RNum U rho ntot T masses nd (fun _ => 0) nb De = 0.
Proof. exact sigma_zero_without_charges. Qed.

(* eta = 5/16 sqrt(pi m k T) / Qbar22 * (1 + b12^2 / (b11 b22 - b12^2)),
   b11 = 8 Qbar22, b12 = 14 Qbar22 - 16 Qbar23, b22 = 301/6 Qbar22 - 56 Qbar23 + 40 Qbar24 *)
Theorem C14_viscosity_single_species_textbook :
  forall (U : Units R) (m n T Q11 Q12 Q13 Q22 Q23 Q24 Q33 b0 b1 : R),
  0 < m -> 0 < n -> 0 < k_b U * T -> Q22 <> 0 -> b11 Q22 * b22 Q22 Q23 Q24 - b12 Q22 Q23 ^ 2 <> 0 ->
  qhat00 RNum (fun _ _ => Q11) (fun _ _ => Q22) (fun _ => m) 1 (fun _ => n) 0 0 * b0
  + qhat01 RNum (fun _ _ => Q11) (fun _ _ => Q12) (fun _ _ => Q22) (fun _ _ => Q23) (fun _ => m) 1 (fun _ => n) 0 0 * b1
    = visc_rhs0 RNum U T (fun _ => m) (fun _ => n) 0 ->
  m / m * qhat01 RNum (fun _ _ => Q11) (fun _ _ => Q12) (fun _ _ => Q22) (fun _ _ => Q23) (fun _ => m) 1 (fun _ => n) 0 0 * b0
  + qhat11 RNum (fun _ _ => Q11) (fun _ _ => Q12) (fun _ _ => Q13) (fun _ _ => Q22) (fun _ _ => Q23) (fun _ _ => Q24) (fun _ _ => Q33)
           (fun _ => m) 1 (fun _ => n) 0 0 * b1 = 0 ->
  visc_value RNum U T (fun _ => n) 1 (fun _ => b0) =
  5 / 16 * sqrt (PI * m * (k_b U * T)) / Q22 * (1 + b12 Q22 Q23 ^ 2 / (b11 Q22 * b22 Q22 Q23 Q24 - b12 Q22 Q23 ^ 2)).
Proof.
  intros U m n T Q11 Q12 Q13 Q22 Q23 Q24 Q33 b0 b1 Hm Hn HkT HQ HD.
  exact (viscosity_single_species_textbook U m n T Q11 Q12 Q13 Q22 Q23 Q24 Q33 Hm Hn HkT b0 b1 HQ HD).
Qed.
Print Assumptions C14_viscosity_single_species_textbook.

Theorem C14_viscosity_single_species_positive :
  forall (U : Units R) (m n T Q11 Q12 Q13 Q22 Q23 Q24 Q33 b0 b1 : R),
  0 < m -> 0 < n -> 0 < k_b U * T -> 0 < Q22 -> 0 < b11 Q22 * b22 Q22 Q23 Q24 - b12 Q22 Q23 ^ 2 ->
  qhat00 RNum (fun _ _ => Q11) (fun _ _ => Q22) (fun _ => m) 1 (fun _ => n) 0 0 * b0
  + qhat01 RNum (fun _ _ => Q11) (fun _ _ => Q12) (fun _ _ => Q22) (fun _ _ => Q23) (fun _ => m) 1 (fun _ => n) 0 0 * b1
    = visc_rhs0 RNum U T (fun _ => m) (fun _ => n) 0 ->
  m / m * qhat01 RNum (fun _ _ => Q11) (fun _ _ => Q12) (fun _ _ => Q22) (fun _ _ => Q23) (fun _ => m) 1 (fun _ => n) 0 0 * b0
  + qhat11 RNum (fun _ _ => Q11) (fun _ _ => Q12) (fun _ _ => Q13) (fun _ _ => Q22) (fun _ _ => Q23) (fun _ _ => Q24) (fun _ _ => Q33)
           (fun _ => m) 1 (fun _ => n) 0 0 * b1 = 0 ->
  0 < visc_value RNum U T (fun _ => n) 1 (fun _ => b0).
Proof.
  intros U m n T Q11 Q12 Q13 Q22 Q23 Q24 Q33 b0 b1 Hm Hn HkT HQ HD.
  exact (viscosity_single_species_positive U m n T Q11 Q12 Q13 Q22 Q23 Q24 Q33 Hm Hn HkT b0 b1 HQ HD).
Qed.

(* sign of the electrical conductivity: non-negative when no listed species moves against its charge sign ... *)
Theorem C14_sigma_nonneg : forall (U : Units R) (rho ntot T : R) (masses nd charges : nat -> R) (nb : nat) (De : nat -> R),
  0 < rho -> 0 <= ntot -> 0 < k_b U * T ->
  (forall j, (j < nb)%nat -> 0 <= nd j /\ 0 <= masses j /\ 0 <= charges j * De j) ->
  0 <= sigma_value RNum U rho ntot T masses nd charges nb De.
Proof. exact sigma_nonneg. Qed.
Print Assumptions C14_sigma_nonneg.

(* ... and REFUTED in general: a negative ion carried by a positive coefficient makes the formula negative
   (known finding key=sigma:anions) *)
Theorem C14_sigma_nonneg_refuted : forall U : Units R, e_ch U <> 0 -> 0 < k_b U ->
  exists (masses nd charges De : nat -> R),
    (forall j, 0 < nd j /\ 0 < masses j /\ 0 < De j) /\ sigma_value RNum U 1 1 1 masses nd charges 1 De < 0.
Proof. exact sigma_negative_with_anion. Qed.

(* total thermal conductivity of a composition that does not change with temperature *)
Theorem C14_kappa_frozen : forall (U : Units R) (dt : bool) (rho ntot T lim : R) (masses nd hv DT : nat -> R) (D : nat -> nat -> R) (nb : nat) (kdash : R),
  kappa_total RNum U dt rho ntot T lim masses nd hv DT (fun _ => 0) D nb kdash =
  kdash + (if dt then Rsum (map (fun i => hv i * DT i / T) (seq 0 nb)) else 0).
Proof. exact kappa_frozen. Qed.

(* positivity of the total thermal conductivity REFUTED for the assembly with thermal-diffusion terms
   (known finding key=kappa:thermal-diffusion-enthalpy) *)
Theorem C14_kappa_positive_refuted : forall U : Units R,
  exists (masses nd hv DT : nat -> R) (D : nat -> nat -> R) (kdash : R),
    0 < kdash /\ (forall i, 0 < masses i /\ 0 < nd i) /\ DT 0%nat + DT 1%nat = 0 /\
    kappa_total RNum U true 1 1 1 0 masses nd hv DT (fun _ => 0) D 2 kdash < 0 /\
    kappa_total RNum U false 1 1 1 0 masses nd hv DT (fun _ => 0) D 2 kdash = kdash.
Proof. exact kappa_negative_possible. Qed.
Print Assumptions C14_kappa_positive_refuted.

(* general mixtures: the viscosity of ANY solution of the system is a positive constant times the quadratic form of the
   assembled qhat matrix at that solution; its positivity is exactly positivity of that form (which holds for genuine
   bracket integrals; for the fitted collision integrals it is validated over the window, not proved) *)
Theorem C14_viscosity_is_quadratic_form : forall (U : Units R) (T : R) (masses nd : nat -> R) (nb : nat) (Q : @qints R),
  (forall i, 0 < masses i) -> 0 < k_b U * T -> forall x : nat -> nat -> R,
  visc_rows U T masses nd nb Q x ->
  visc_value RNum U T nd nb (x 0%nat) = k_b U * T / (10 * sqrt (2 * PI / (k_b U * T))) * qform masses nd nb Q x /\
  (0 < visc_value RNum U T nd nb (x 0%nat) <-> 0 < qform masses nd nb Q x).
Proof.
  intros U T masses nd nb Q Hm HkT x Hsys. split.
  - apply viscosity_is_quadratic_form; assumption.
  - apply (viscosity_positive_iff_form_positive U T masses nd nb Q Hm HkT x Hsys).
Qed.
Print Assumptions C14_viscosity_is_quadratic_form.

(* the same for the translational thermal conductivity and the 4 nu x 4 nu matrix *)
Theorem C14_translational_conductivity_is_quadratic_form : forall (U : Units R) (T : R) (masses nd : nat -> R) (nb : nat) (Q : @qints R),
  (forall i, 0 < masses i) -> 0 < k_b U * T -> 0 < k_b U -> forall x : nat -> nat -> R,
  q_rows nb masses nd Q (kdash_rhs nd) x ->
  kdash_value RNum U T masses nd nb (x 1%nat) = k_b U * sqrt (2 * (k_b U * T)) / (6 * sqrt PI) * qform_k masses nd nb Q x /\
  (0 < kdash_value RNum U T masses nd nb (x 1%nat) <-> 0 < qform_k masses nd nb Q x).
Proof.
  intros U T masses nd nb Q Hm HkT Hk x Hsys. split.
  - apply kdash_is_quadratic_form; assumption.
  - apply (kdash_positive_iff_form_positive U T masses nd nb Q Hm HkT Hk x Hsys).
Qed.

(* heat capacity (regenerated from LTE.calculate_heat_capacity, enthalpy oracle H): strictly positive exactly when the enthalpy at
   T(1+d) exceeds the enthalpy at T(1-d); finite whenever both enthalpies are (a quotient by 2 d T <> 0) *)
Theorem C14_heat_capacity_positive_iff : forall (H : R -> R) (T d : R), 0 < T -> 0 < d ->
  (0 < heat_capacity RNum H T d <-> H (T * (1 - d)) < H (T * (1 + d))).
Proof. exact heat_capacity_pos_iff. Qed.
Print Assumptions C14_heat_capacity_positive_iff.
