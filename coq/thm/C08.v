(* C08 — the reported internal energy per particle is k T^2 d/dT ln(Z_translational * Z_internal)
   at fixed lowering dE, for each species class.  `*_U`, `*_Zint`, `translational_Z` are the kernels
   regenerated from species.py; `is_derive` is Coquelicot's derivative predicate.
   Each statement says: the function T |-> ln(Ztr(T) * Zint(T, dE)) is differentiable at T with
   derivative U(T, dE) / (k T^2). *)
From Coq Require Import Reals List Lra.
From Coquelicot Require Import Coquelicot.
Import ListNotations.
From MPC Require Import Num Species RInst StatMech GenSpecies C07_proofs C08_proofs.
Open Scope R_scope.

Definition constants_ok (U : Units R) : Prop := 0 < k_b U /\ 0 < N_a U /\ h_pl U <> 0.

Theorem C08_mono : forall (U : Units R) (s : species R) (T dE : R),
  constants_ok U -> 0 < molar_mass s -> 0 < T -> 0 < mono_Zint RNum U s T dE ->
  is_derive (fun t => ln (translational_Z RNum U s t * mono_Zint RNum U s t dE)) T
            (mono_U RNum U s T dE / (k_b U * T ^ 2)).
Proof. intros U s T dE [H1 [H2 H3]]. exact (U_is_kT2_dlnZ_mono U H1 H2 H3 s T dE). Qed.
Print Assumptions C08_mono.

(* the hypothesis Zint > 0 above is met by every level list with J >= 0 and one bound level *)
Theorem C08_mono_Zint_pos : forall (U : Units R) (s : species R) (T dE : R),
  (forall JE, In JE (energy_levels s) -> 0 <= fst JE) ->
  (exists JE, In JE (energy_levels s) /\ snd JE < ionisation_energy s - dE) ->
  0 < mono_Zint RNum U s T dE.
Proof. exact mono_Zint_pos. Qed.
Print Assumptions C08_mono_Zint_pos.

(* energies and partition function range over the same states: same cutoff, same levels *)
Theorem C08_mono_same_states : forall (U : Units R) (s : species R) (T dE : R),
  mono_U RNum U s T dE = Umono_spec (k_b U) (ionisation_energy s) (energy_levels s) T dE /\
  mono_Zint RNum U s T dE = Zint_mono_spec (k_b U) (ionisation_energy s) (energy_levels s) T dE.
Proof. intros. split; [apply mono_U_eq_spec | apply mono_Zint_eq_spec]. Qed.
Print Assumptions C08_mono_same_states.

Theorem C08_di : forall (U : Units R) (s : species R) (T dE : R),
  constants_ok U -> 0 < molar_mass s -> 0 < T -> 0 < g0 s -> 0 < w_e s -> 0 < b_e s -> 0 < sigma_s s ->
  is_derive (fun t => ln (translational_Z RNum U s t * di_Zint RNum U s t dE)) T
            (di_U RNum U s T dE / (k_b U * T ^ 2)).
Proof. intros U s T dE [H1 [H2 H3]]. exact (U_is_kT2_dlnZ_di U H1 H2 H3 s T dE). Qed.
Print Assumptions C08_di.

Theorem C08_poly_linear : forall (U : Units R) (s : species R) (T dE : R),
  constants_ok U -> linear_yn s = true ->
  0 < molar_mass s -> 0 < T -> 0 < g0 s -> List.Forall (fun w => 0 < w) (wi_e s) ->
  0 < nth 1 (abc_e s) 0 -> 0 < sigma_s s ->
  is_derive (fun t => ln (translational_Z RNum U s t * poly_Zint RNum U s t dE)) T
            (poly_U RNum U s T dE / (k_b U * T ^ 2)).
Proof. intros U s T dE [H1 [H2 H3]]. exact (U_is_kT2_dlnZ_poly_linear U H1 H2 H3 s T dE). Qed.
Print Assumptions C08_poly_linear.

Theorem C08_poly_nonlinear : forall (U : Units R) (s : species R) (T dE Ae Be Ce : R),
  constants_ok U -> linear_yn s = false -> abc_e s = [Ae; Be; Ce] ->
  0 < molar_mass s -> 0 < T -> 0 < g0 s -> List.Forall (fun w => 0 < w) (wi_e s) ->
  0 < Ae -> 0 < Be -> 0 < Ce -> 0 < sigma_s s ->
  is_derive (fun t => ln (translational_Z RNum U s t * poly_Zint RNum U s t dE)) T
            (poly_U RNum U s T dE / (k_b U * T ^ 2)).
Proof. intros U s T dE Ae Be Ce [H1 [H2 H3]]. exact (U_is_kT2_dlnZ_poly_nonlinear U H1 H2 H3 s T dE Ae Be Ce). Qed.
Print Assumptions C08_poly_nonlinear.

Theorem C08_electron : forall (U : Units R) (s : species R) (T dE : R),
  constants_ok U -> 0 < molar_mass s -> 0 < T ->
  is_derive (fun t => ln (translational_Z RNum U s t * electron_Zint RNum s t dE)) T
            (electron_U RNum U s T dE / (k_b U * T ^ 2)).
Proof. intros U s T dE [H1 [H2 H3]]. exact (U_is_kT2_dlnZ_electron U H1 H2 H3 s T dE). Qed.
Print Assumptions C08_electron.

(* non-vacuity: the hypotheses are satisfiable (a concrete two-level atom) *)
Example C08_hypotheses_satisfiable :
  let s := mkSpecies R KMono 1 [] 1 0%Z 10 0 [(0, 0); (1, 5)] 0 0 0 0 false [] [] 0 0 None None [] in
  (forall JE, In JE (energy_levels s) -> 0 <= fst JE) /\
  (exists JE, In JE (energy_levels s) /\ snd JE < ionisation_energy s - 1).
Proof.
  cbv zeta. cbn [energy_levels ionisation_energy]. split.
  - intros JE [H|[H|[]]]; subst; cbn [fst]; lra.
  - exists (0, 0). split; [now left | cbn [snd]; lra].
Qed.
