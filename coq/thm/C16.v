(* C16 — species survive a save / load round trip unchanged.
   Model: model/SpeciesIO.v instantiated at the class tables regenerated from species.py
   (constructor parameter lists, assignment lists, super().__init__ arguments, from_file keys, dispatch).
   No real numbers; no axioms. *)
From Coq Require Import List String ZArith.
Import ListNotations.
From MPC Require Import SpeciesIO GenSpeciesIO SpeciesIOInst C16_proofs.
Open Scope string_scope.

(* json.load (json.dump v) is v with tuples read back as lists — for every JSON-representable value *)
Theorem C16_json_roundtrip : forall v : pyval, of_json (to_json v) = normalize v.
Proof. exact json_roundtrip. Qed.
Print Assumptions C16_json_roundtrip.

(* for every argument list the constructor accepts, saving the constructed object and loading the file
   yields an object of the same class whose every attribute is equal (sequences by value), in the same order *)
Theorem C16_roundtrip_monatomic : forall (args : list pyval) (o : obj) (n : Z),
  List.length args = List.length mono_params -> Construct Mono args = Some o ->
  stoich_of o = Some n -> n = 1%Z ->
  SaveLoad o = Some ("Monatomic", norm_obj o).
Proof. intros args o n Hl Hc Hs ->. exact (roundtrip_mono args o 1 Hl Hc Hs eq_refl). Qed.
Print Assumptions C16_roundtrip_monatomic.

Theorem C16_roundtrip_diatomic : forall (args : list pyval) (o : obj) (n : Z),
  List.length args = List.length di_params -> Construct Di args = Some o ->
  stoich_of o = Some n -> n = 2%Z ->
  SaveLoad o = Some ("Diatomic", norm_obj o).
Proof. intros args o n Hl Hc Hs ->. exact (roundtrip_di args o 2 Hl Hc Hs eq_refl). Qed.
Print Assumptions C16_roundtrip_diatomic.

Theorem C16_roundtrip_polyatomic : forall (args : list pyval) (o : obj) (n : Z),
  List.length args = List.length poly_params -> Construct Poly args = Some o ->
  stoich_of o = Some n -> n <> 1%Z -> n <> 2%Z ->
  SaveLoad o = Some ("Polyatomic", norm_obj o).
Proof.
  intros args o n Hl Hc Hs H1 H2. apply (roundtrip_poly args o n Hl Hc Hs).
  rewrite dispatch_documented. destruct (Z.eqb_spec n 1); [contradiction|]. destruct (Z.eqb_spec n 2); [contradiction|]. reflexivity.
Qed.
Print Assumptions C16_roundtrip_polyatomic.

(* every constructor binds all of its parameters: construction succeeds on every argument list of the right length *)
Theorem C16_constructors_total :
  (forall args, List.length args = List.length mono_params -> exists o, Construct Mono args = Some o) /\
  (forall args, List.length args = List.length di_params -> exists o, Construct Di args = Some o) /\
  (forall args, List.length args = List.length poly_params -> exists o, Construct Poly args = Some o).
Proof. exact (conj construct_total_mono (conj construct_total_di construct_total_poly)). Qed.
Print Assumptions C16_constructors_total.

(* loading by name is loading the database file: from_name returns from_file(SPECIES_PATH / (name + ".json")) —
   checked syntactically by the generator (fail-closed) and recorded as this flag *)
Theorem C16_from_name_is_from_file : from_name_is_from_file_of_database_path = true.
Proof. reflexivity. Qed.
Print Assumptions C16_from_name_is_from_file.

(* non-vacuity: a concrete monatomic argument list with a tuple cross-section, an infinite energy and None *)
Example C16_example :
  let args := [PStr "X"; PDict [("X", PInt 1)]; PFloat (Fin 1); PInt 0; PFloat PosInf;
               PList [PList [PFloat (Fin 2); PFloat (Fin 3)]]; PFloat (Fin 4); PInt 3; PNone;
               PTuple [PFloat (Fin 5); PFloat (Fin 6); PFloat (Fin 7); PFloat (Fin 8)]; PList []; PList [PStr "src"]] in
  exists o, Construct Mono args = Some o /\ stoich_of o = Some 1%Z /\
            SaveLoad o = Some ("Monatomic", norm_obj o) /\ norm_obj o <> o.
Proof.
  cbv zeta. eexists. split; [vm_compute; reflexivity|]. split; [vm_compute; reflexivity|].
  split; [vm_compute; reflexivity|]. vm_compute. discriminate.
Qed.
