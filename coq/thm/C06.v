(* C06 — non-convergence is never silent (control flow of calculate_composition).
   Model: model/Retry.v (governor schedule, inner loop with its exits, warning), the numerical step abstract.
   What is a theorem: the warning logic for ARBITRARY behaviour of the numerical step.  NOT a theorem: that the
   shipped mixtures converge inside the documented window, start-estimate independence and the effect of
   tightening rtol on the value — statements about floating-point dynamics, validated on the implementation. *)
From Coq Require Import List Arith.
Import ListNotations.
From MPC Require Import Retry C06_proofs.

Theorem C06_warn_iff_exhausted : forall (max_iter n_gov : nat) (observe : nat -> nat -> obs),
  warns max_iter n_gov observe = true <-> (forall g, g < n_gov -> exists k, attempt max_iter observe g = Failed k).
Proof. exact warn_iff_exhausted. Qed.
Print Assumptions C06_warn_iff_exhausted.

(* no warning => the last stopping quantity was a finite NUMBER not above the tolerance, reached within max_iter *)
Theorem C06_no_warn_converged : forall (max_iter n_gov : nat) (observe : nat -> nat -> obs),
  warns max_iter n_gov observe = false ->
  exists g k, g < n_gov /\ 1 <= k <= max_iter /\ observe g (k - 1) = NotAbove /\
              (forall j, j < k - 1 -> observe g j = Above) /\
              (forall g', g' < g -> exists k', attempt max_iter observe g' = Failed k').
Proof. exact no_warn_converged. Qed.
Print Assumptions C06_no_warn_converged.

Theorem C06_nonfinite_never_converges : forall (max_iter : nat) (observe : nat -> nat -> obs) (g k : nat),
  attempt max_iter observe g = Converged k -> forall j, j < k -> observe g j <> NonFinite.
Proof. exact nonfinite_never_converges. Qed.
Print Assumptions C06_nonfinite_never_converges.

(* termination: an attempt performs at most max_iter + 1 iterations, whatever the numerical step does *)
Theorem C06_attempt_bounded : forall (max_iter : nat) (observe : nat -> nat -> obs) (g : nat),
  match attempt max_iter observe g with Converged k => k <= max_iter | Failed k => k <= S max_iter end.
Proof. exact attempt_bounded. Qed.
Print Assumptions C06_attempt_bounded.

(* non-vacuity: a run whose first attempt meets a NaN and whose second converges does not warn *)
Example C06_example :
  let observe g it := match g, it with 0, 1 => NonFinite | 1, 2 => NotAbove | _, _ => Above end in
  solve_control 1000 9 observe = ([Failed 2; Converged 3], true).
Proof. vm_compute. reflexivity. Qed.
