(* C06, start-estimate clause: the limit of the iteration cannot depend on the starting estimate of particle numbers,
   because the fixed point is unique.  Kept apart from thm/C06.v, which is closed under the global context (no axioms);
   this file is over R and inherits the real-number axioms.  PARTIAL: uniqueness of the fixed point for the ideal mixture
   (reference energies and lowerings equal in the two states); that the floating-point iteration reaches it from every
   starting estimate in 1e5..1e30 is validated on the implementation. *)
From Coq Require Import Reals List.
Import ListNotations.
From MPC Require Import Num Species RInst RVec Gibbs C09_proofs C10_proofs C10_kkt C01_unique C01_stop.
Open Scope R_scope.

Theorem C06_limit_independent_of_start :
  forall (U : Units R) (T P : R) (ps : list (entry * entry)) (cols : list (list R)) (lam1 lam2 : list R),
  0 < k_b U * T -> 0 < P -> ps <> [] -> Forall same_data ps -> Forall (pair_pos U T) ps ->
  let nu := map (fun p => e_n (snd p) - e_n (fst p)) ps in
  let mu1 := map (fun p => mu_at U T (Ntot (map fst ps) * (k_b U * T) / P) (fst p)) ps in
  let mu2 := map (fun p => mu_at U T (Ntot (map snd ps) * (k_b U * T) / P) (snd p)) ps in
  Forall (fun c => List.length c = List.length nu) cols ->
  Forall2 (fun mi ai => mi = - ai) mu1 (alam RNum cols lam1 (repeat 0 (List.length nu))) ->
  Forall2 (fun mi ai => mi = - ai) mu2 (alam RNum cols lam2 (repeat 0 (List.length nu))) ->
  Forall (fun c => dotR c nu = 0) cols ->
  forall p, In p ps ->
    e_n (snd p) / (Ntot (map snd ps) * (k_b U * T) / P) = e_n (fst p) / (Ntot (map fst ps) * (k_b U * T) / P).
Proof. exact kkt_points_same_densities. Qed.
Print Assumptions C06_limit_independent_of_start.

(* tightening rtol: a run stopped at stopping quantity <= rtol has moved no resolved species by more than rtol in its last step *)
Theorem C06_rtol_bounds_last_step : forall (Ni Nn : list R) (rtol n nn : R),
  stop_quantity RNum Ni Nn <= rtol -> In (n, nn) (combine Ni Nn) ->
  1 / 10000000 * nth (argmax RNum Nn) Nn 0 < nn -> Rabs (nn - n) / nn <= rtol.
Proof. exact converged_resolved_steps_small. Qed.
Print Assumptions C06_rtol_bounds_last_step.
