(* C15 — total emission coefficient is the documented optically-thin line sum.
   `total_emission_coefficient` is regenerated from functions_radiation.py on every run. *)
From Coq Require Import Reals List Permutation.
Import ListNotations.
From MPC Require Import Num Species RInst StatMech Radiation GenSpecies GenRadiation C15_proofs.
Open Scope R_scope.

Definition emission_spec_R (U : Units R) :=
  emission_spec (k_b U) (h_pl U) (c_light U) (species R) (fun s T => Zint RNum U s T 0) (@emission_lines R).

(* (h c / 4 pi) * sum over heavy species and their lines of n gA exp(-E/kT) / (lambda Zint(T,0));
   the electron entry (last) contributes nothing whatever its density *)
Theorem C15_emission_eq_spec : forall (U : Units R) (T : R) (heavy_sp : list (species R)) (heavy_nd : list R)
    (e : species R) (ne : R),
  length heavy_sp = length heavy_nd ->
  total_emission_coefficient RNum U T (heavy_sp ++ [e]) (heavy_nd ++ [ne]) =
  emission_spec_R U T (combine heavy_nd heavy_sp).
Proof. exact emission_eq_spec. Qed.
Print Assumptions C15_emission_eq_spec.

Theorem C15_emission_additive : forall (U : Units R) (T : R) (l1 l2 : list (R * species R)),
  emission_spec_R U T (l1 ++ l2) = emission_spec_R U T l1 + emission_spec_R U T l2.
Proof. exact emission_additive. Qed.
Print Assumptions C15_emission_additive.

Theorem C15_no_lines_zero : forall (U : Units R) (T n : R) (sp : species R),
  emission_lines sp = [] -> emission_spec_R U T [(n, sp)] = 0.
Proof. exact no_lines_zero. Qed.
Print Assumptions C15_no_lines_zero.

Theorem C15_emission_perm_invariant : forall (U : Units R) (T : R) (l l' : list (R * species R)),
  Permutation l l' -> emission_spec_R U T l = emission_spec_R U T l'.
Proof. exact emission_perm_invariant. Qed.
Print Assumptions C15_emission_perm_invariant.
