(* C11 — the transport kernel equals first-principles Chapman-Enskog theory.
   Blocks q00 .. q33, qhat00 .. qhat11 are regenerated from functions_transport.py on every run.  The right-hand
   sides are spec/ChapmanEnskog.v: sqrt(m_i) * sum_l n_i n_l (delta_ij [.,.]'_il + delta_jl [.,.]''_il) with the bracket
   integrals taken from spec/BracketTables.v (coefficients of the generating function of DESIGN Appendix A), for ANY
   number of species, any positive masses, any densities and any collision integrals.
   q22 and q23 (and q32 = mass ratio * q23) are NOT here: variants/C11_q2{2,3}_clean.v state them and fail on the current
   tree (recorded finding), variants/C11_q2{2,3}_known.v prove exactly how the code deviates. *)
From Coq Require Import Reals List.
Import ListNotations.
From MPC Require Import Num Species RInst StatMech RVec RSumIdx BracketTables ChapmanEnskog GenTransport Transport C11_base C11_proofs C11_hs C11_final.
Open Scope R_scope.

Section Statements.
Variables (masses nd : nat -> R) (nb : nat).
Hypothesis Hm : forall i, 0 < masses i.
Variable Qbar : nat -> nat -> nat -> nat -> R.
Notation Q l s := (Qbar l s).
Notation spec := (q_spec masses nd nb Qbar).
Notation hspec := (qhat_spec masses nd nb Qbar).

Theorem C11_q00 : forall i j, q00 RNum (Q 1 1) masses nb nd i j = spec v11_00 v12_00 i j + q00_constraint masses nd nb Qbar i j.
Proof. exact (q00_eq_spec masses nd nb Hm Qbar). Qed.
Theorem C11_q01 : forall i j, q01 RNum (Q 1 1) (Q 1 2) masses nb nd i j = spec v11_01 v12_01 i j.
Proof. exact (q01_eq_spec masses nd nb Hm Qbar). Qed.
Theorem C11_q02 : forall i j, q02 RNum (Q 1 1) (Q 1 2) (Q 1 3) masses nb nd i j = spec v11_02 v12_02 i j.
Proof. exact (q02_eq_spec masses nd nb Hm Qbar). Qed.
Theorem C11_q03 : forall i j, q03 RNum (Q 1 1) (Q 1 2) (Q 1 3) (Q 1 4) masses nb nd i j = spec v11_03 v12_03 i j.
Proof. exact (q03_eq_spec masses nd nb Hm Qbar). Qed.
Theorem C11_q11 : forall i j, q11 RNum (Q 1 1) (Q 1 2) (Q 1 3) (Q 2 2) masses nb nd i j = spec v11_11 v12_11 i j.
Proof. exact (q11_eq_spec masses nd nb Hm Qbar). Qed.
Theorem C11_q12 : forall i j, q12 RNum (Q 1 1) (Q 1 2) (Q 1 3) (Q 1 4) (Q 2 2) (Q 2 3) masses nb nd i j = spec v11_12 v12_12 i j.
Proof. exact (q12_eq_spec masses nd nb Hm Qbar). Qed.
Theorem C11_q13 : forall i j,
  q13 RNum (Q 1 1) (Q 1 2) (Q 1 3) (Q 1 4) (Q 1 5) (Q 2 2) (Q 2 3) (Q 2 4) masses nb nd i j = spec v11_13 v12_13 i j.
Proof. exact (q13_eq_spec masses nd nb Hm Qbar). Qed.
Theorem C11_q33 : forall i j,
  q33 RNum (Q 1 1) (Q 1 2) (Q 1 3) (Q 1 4) (Q 1 5) (Q 1 6) (Q 1 7) (Q 2 2) (Q 2 3) (Q 2 4) (Q 2 5) (Q 2 6) (Q 3 3) (Q 3 4) (Q 3 5) (Q 4 4)
      masses nb nd i j = spec v11_33 v12_33 i j.
Proof. exact (q33_eq_spec masses nd nb Hm Qbar). Qed.
Theorem C11_qhat00 : forall i j, qhat00 RNum (Q 1 1) (Q 2 2) masses nb nd i j = hspec t11_00 t12_00 i j.
Proof. exact (qhat00_eq_spec masses nd nb Hm Qbar). Qed.
Theorem C11_qhat01 : forall i j, qhat01 RNum (Q 1 1) (Q 1 2) (Q 2 2) (Q 2 3) masses nb nd i j = hspec t11_01 t12_01 i j.
Proof. exact (qhat01_eq_spec masses nd nb Hm Qbar). Qed.
Theorem C11_qhat11 : forall i j,
  qhat11 RNum (Q 1 1) (Q 1 2) (Q 1 3) (Q 2 2) (Q 2 3) (Q 2 4) (Q 3 3) masses nb nd i j = hspec t11_11 t12_11 i j.
Proof. exact (qhat11_eq_spec masses nd nb Hm Qbar). Qed.

(* the mass-ratio rule for the lower blocks is the bracket symmetry: they are the first-principles elements with p, q exchanged *)
Theorem C11_transposes : forall i j,
  masses j / masses i * q01 RNum (Q 1 1) (Q 1 2) masses nb nd i j = spec v11_10 v12_10 i j /\
  (masses j / masses i) ^ 2 * q02 RNum (Q 1 1) (Q 1 2) (Q 1 3) masses nb nd i j = spec v11_20 v12_20 i j /\
  (masses j / masses i) ^ 3 * q03 RNum (Q 1 1) (Q 1 2) (Q 1 3) (Q 1 4) masses nb nd i j = spec v11_30 v12_30 i j /\
  masses j / masses i * q12 RNum (Q 1 1) (Q 1 2) (Q 1 3) (Q 1 4) (Q 2 2) (Q 2 3) masses nb nd i j = spec v11_21 v12_21 i j /\
  (masses j / masses i) ^ 2 * q13 RNum (Q 1 1) (Q 1 2) (Q 1 3) (Q 1 4) (Q 1 5) (Q 2 2) (Q 2 3) (Q 2 4) masses nb nd i j = spec v11_31 v12_31 i j /\
  masses j / masses i * qhat01 RNum (Q 1 1) (Q 1 2) (Q 2 2) (Q 2 3) masses nb nd i j = hspec t11_10 t12_10 i j.
Proof.
  intros i j. repeat split.
  - apply (q10_eq_spec masses nd nb Hm Qbar).
  - apply (q20_eq_spec masses nd nb Hm Qbar).
  - apply (q30_eq_spec masses nd nb Hm Qbar).
  - apply (q21_eq_spec masses nd nb Hm Qbar).
  - apply (q31_eq_spec masses nd nb Hm Qbar).
  - apply (qhat10_eq_spec masses nd nb Hm Qbar).
Qed.
End Statements.
Print Assumptions C11_q33.
Print Assumptions C11_transposes.

(* single-gas rigid-sphere limits of the first-principles elements: the classical Chapman-Cowling ratios *)
Theorem C11_hard_sphere_viscosity_ratio :
  1 + h t11_01 t12_01 ^ 2 / (h t11_00 t12_00 * h t11_11 t12_11 - h t11_01 t12_01 ^ 2) = 205 / 202.
Proof. exact hard_sphere_viscosity_ratio. Qed.
Theorem C11_hard_sphere_lambda_ratio_2 :
  1 + av v11_12 v12_12 ^ 2 / (av v11_11 v12_11 * av v11_22 v12_22 - av v11_12 v12_12 ^ 2) = 45 / 44.
Proof. exact hard_sphere_lambda_ratio_2. Qed.
Theorem C11_hard_sphere_lambda_ratio_3 :
  ratio3 (av v11_11 v12_11) (av v11_12 v12_12) (av v11_13 v12_13) (av v11_22 v12_22) (av v11_23 v12_23) (av v11_33 v12_33)
  = 60989 / 59512 /\ Rabs (60989 / 59512 - 1.02482) < 5 / 1000000.
Proof. exact hard_sphere_lambda_ratio_3. Qed.
Print Assumptions C11_hard_sphere_lambda_ratio_3.

(* the right-hand sides and final formulae AS CODED in viscosity / DTi / Dij / electrical_conductivity (gen_*: regenerated from
   functions_transport.py on every run, index form) are those of the model Transport.v, about which the C05 / C12 / C14 theorems
   (conservation identities, quadratic forms, invariances) are stated *)
Theorem C11_final_formulae_as_coded : forall (U : Units R),
  (forall T masses nd i, gen_visc_rhs0 RNum U T masses nd i = visc_rhs0 RNum U T masses nd i) /\
  (forall T nd nb b0, gen_visc_value RNum U T nd nb b0 = visc_value RNum U T nd nb b0) /\
  (forall nd i, gen_DTi_rhs1 RNum nd i = DTi_rhs1 RNum nd i) /\
  (forall T masses nd a0 i, gen_DTi_value RNum U T masses nd a0 i = DTi_value RNum U T masses nd i (a0 i)) /\
  (forall i j h, gen_Dij_rhs RNum i j h = Dij_rhs RNum i j h) /\
  (forall rho ntot T masses nd i j c0i,
     gen_Dij_value RNum U rho ntot T masses nd i j c0i = Dij_value RNum U rho ntot T masses nd i j c0i) /\
  (forall rho ntot T masses nd charges nb De, rho <> 0 -> k_b U <> 0 -> T <> 0 ->
     gen_sigma_value RNum U rho ntot T masses nd charges nb De = sigma_value RNum U rho ntot T masses nd charges nb De).
Proof.
  intros U.
  split; [intros; apply gen_visc_rhs0_model|]. split; [intros; apply gen_visc_value_model|].
  split; [intros; apply gen_DTi_rhs1_model|]. split; [intros; apply gen_DTi_value_model|].
  split; [intros; apply gen_Dij_rhs_model|]. split; [intros; apply gen_Dij_value_model|].
  intros; apply gen_sigma_value_model; assumption.
Qed.
Print Assumptions C11_final_formulae_as_coded.

(* the same for thermal_conductivity: right-hand side, rescaled enthalpies, k', thermal-diffusion and reaction parts, the perturbed
   temperatures of dx/dT and the total assembly as coded are those of the model (the running accumulator of the double loop is
   rendered by the generator as a sum over j of sums over i -- equal over R) *)
Theorem C11_thermal_conductivity_assembly_as_coded : forall (U : Units R),
  (forall nd i, gen_kappa_rhs1 RNum nd i = DTi_rhs1 RNum nd i) /\
  (forall rho ntot masses h i, gen_hv_rescaled RNum rho ntot masses h i = hv_rescaled RNum rho ntot masses h i) /\
  (forall T masses nd nb a1, gen_kdash_value RNum U T masses nd nb a1 = kdash_value RNum U T masses nd nb a1) /\
  (forall T delta nb npos nneg j, gen_dxdT_value RNum T delta nb npos nneg j = dxdT_value RNum T delta nb npos nneg j) /\
  (forall T delta, gen_kappa_T_pos RNum T delta = T * (1 + delta) /\ gen_kappa_T_neg RNum T delta = T * (1 - delta)) /\
  (forall dt rho ntot T ni_limit masses nd hv DT dxdT D nb kdash,
     gen_kappa_total RNum U dt rho ntot T ni_limit masses nd hv DT dxdT D nb kdash
     = kappa_total RNum U dt rho ntot T ni_limit masses nd hv DT dxdT D nb kdash).
Proof.
  intros U.
  split; [intros; apply gen_kappa_rhs1_model|]. split; [intros; apply gen_hv_rescaled_model|].
  split; [intros; apply gen_kdash_value_model|]. split; [intros; apply gen_dxdT_value_model|].
  split; [intros; apply gen_kappa_T_pm|]. intros; apply gen_kappa_total_model.
Qed.
Print Assumptions C11_thermal_conductivity_assembly_as_coded.

(* the assembly of the two matrices as coded in q() / qhat() -- which of the sixteen collision-integral arrays each block is given,
   the lower blocks as powers of the mass ratio times the upper ones, the np.block layout -- regenerated on every run, is the
   block layout of the model, whose blocks the theorems above identify with the first-principles elements *)
Theorem C11_assembly_as_coded : forall (Q : qints) (masses : nat -> R) (nb : nat) (nd : nat -> R) (a b i j : nat),
  gen_qblock RNum (I11 Q) (I12 Q) (I13 Q) (I14 Q) (I15 Q) (I16 Q) (I17 Q) (I22 Q) (I23 Q) (I24 Q) (I25 Q) (I26 Q)
             (I33 Q) (I34 Q) (I35 Q) (I44 Q) masses nb nd a b i j = qblock RNum Q masses nb nd a b i j /\
  gen_qhatblock RNum (I11 Q) (I12 Q) (I13 Q) (I22 Q) (I23 Q) (I24 Q) (I33 Q) masses nb nd a b i j = qhatblock RNum Q masses nb nd a b i j.
Proof. intros. split; [apply gen_qblock_model | apply gen_qhatblock_model]. Qed.
Print Assumptions C11_assembly_as_coded.
