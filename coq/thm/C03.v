(* C03 — every calculated property is a pure function of the current (species, x0, T, P).
   Model: model/Cache.v (flag, N cache, E cache, temperature perturbations) interpreting the effect
   summaries regenerated from mixture.py / functions_transport.py / functions_radiation.py
   (gen/GenEffects.v).  "clean" = every cache read during the call was of a cache computed at the inputs
   current at the time of the read; "inputs preserved" = T is back at its entry value (P, x0, species are
   never assigned by any summarised function: refused by the generator otherwise). No axioms. *)
From Coq Require Import List Bool.
Import ListNotations.
From MPC Require Import Cache GenEffects C03_proofs.

(* for EVERY finite history of set-T / set-P / set-x0 and public calculate_* calls on a fresh object,
   every call terminates, reads only caches computed at the then-current inputs, and leaves T, P, x0 as found *)
Theorem C03_history_purity : forall ops : list op,
  Forall public_op ops ->
  exists h' outs, hrun body h_init ops = Some (h', outs) /\
                  Forall (fun o => o_clean o && o_inputs_preserved o = true) outs /\
                  List.length outs = n_calcs ops.
Proof. exact history_purity. Qed.
Print Assumptions C03_history_purity.

(* the invariant that carries the induction, for each single call from any state satisfying it *)
Theorem C03_every_method_preserves_invariant : forall (m : nat) (dt : bool) (h : hs),
  In m public_methods -> inv_b h = true ->
  exists h' o, hstep body h (Calc m dt) = Some (h', Some o) /\ out_ok o = true /\ inv_b h' = true.
Proof. intros m dt h Hm Hi. exact (method_ok_spec m dt h (method_ok_of_check m dt h Hm Hi)). Qed.
Print Assumptions C03_every_method_preserves_invariant.

(* several mixtures: the model state of one is untouched by operations on the other *)
Theorem C03_no_cross_talk : forall (l : list (who * op)) (a b : hs),
  fold_left step2 l (Some (a, b)) =
  match state_after a (only A l), state_after b (only B l) with
  | Some a', Some b' => Some (a', b')
  | _, _ => None
  end
  \/ fold_left step2 l (Some (a, b)) = None.
Proof. exact no_cross_talk. Qed.
Print Assumptions C03_no_cross_talk.

(* facts the generator establishes syntactically (it refuses to generate otherwise) *)
Theorem C03_generator_checks : setters_clear_flag = true /\ shared_state_never_written = true.
Proof. split; reflexivity. Qed.

(* non-vacuity: the histories that exposed the repaired defect are covered, and the public methods are the nine of the API *)
Example C03_covers_stale_energy_history :
  Forall public_op [Calc m_calculate_composition true; SetT; Calc m_calculate_species_enthalpies true;
                    Calc m_calculate_heat_capacity true; Calc m_calculate_species_enthalpies true;
                    Calc m_calculate_thermal_conductivity false; SetX0; Calc m_calculate_enthalpy true]
  /\ List.length public_methods = 9.
Proof. split; [repeat constructor; cbn; tauto | reflexivity]. Qed.
