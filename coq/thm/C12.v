(* C12 — transport coefficients obey exact invariances and conservation identities.
   Blocks q00 .. q03 are regenerated from functions_transport.py on every run; the assembly (block layout, right-hand
   sides, final formulae) is the hand-written model/Transport.v tied by the correspondence check.  Linear solves are
   not modelled: the theorems hold for ANY solution of the first block row.
   What is a theorem: column sums of the first block row, the momentum constraint it forces on every solution,
   sum_i D^T_i = 0, D_ii = 0 and the diffusion mass identity; density scaling: every regenerated block (q22 / q23 as they
   stand included) is homogeneous of degree 2 in the densities for fixed collision integrals, hence scaling all
   densities by c maps every solution x of the viscosity / translational-conductivity systems to x / c and leaves
   viscosity and translational thermal conductivity unchanged (collision integrals of neutral pairs do not depend on
   the densities: C13 kernels Qnn); species splitting, viscosity: replacing a species by two pseudo-species of the same mass and
   collision integrals that share its density maps every solution of the viscosity system to a solution of the split
   system (both copies carry the original coefficient) with the same viscosity; the same for the 4 nu x 4 nu system and
   the translational thermal conductivity k' (row forms of all sixteen assembled blocks, q22 / q23 / q32 with whichever
   coefficient tables the code has).  NOT a theorem (validated on the implementation): split invariance of the reaction /
   thermal-diffusion parts of the thermal conductivity and of the electrical conductivity (their diffusion systems have
   right-hand sides that are not proportional to the densities). *)
From Coq Require Import Reals List Lia Lra.
Import ListNotations.
From MPC Require Import Num Species RInst StatMech RVec RSumIdx GenTransport Transport C12_proofs C12_scaling C12_split C05_blocks C12_forms C12_split_q.
Open Scope R_scope.

(* columns of q^{0p}, p >= 1, sum to zero for symmetric collision integrals, any number of species, any masses > 0 *)
Theorem C12_column_sums_vanish : forall (masses nd : nat -> R) (nb : nat),
  (forall i, 0 < masses i) ->
  forall (Q11 Q12 Q13 Q14 : nat -> nat -> R) (j : nat), (j < nb)%nat ->
  (forall i l, Q11 i l = Q11 l i) -> (forall i l, Q12 i l = Q12 l i) ->
  (forall i l, Q13 i l = Q13 l i) -> (forall i l, Q14 i l = Q14 l i) ->
  sumn nb (fun i => q01 RNum Q11 Q12 masses nb nd i j) = 0 /\
  sumn nb (fun i => q02 RNum Q11 Q12 Q13 masses nb nd i j) = 0 /\
  sumn nb (fun i => q03 RNum Q11 Q12 Q13 Q14 masses nb nd i j) = 0 /\
  sumn nb (fun i => q00 RNum Q11 masses nb nd i j) = - (nd j * sqrt (masses j) * Sconstraint masses nd nb Q11).
Proof.
  intros masses nd nb Hm Q11 Q12 Q13 Q14 j Hj H1 H2 H3 H4.
  split; [now apply col_sum_q01|]. split; [now apply col_sum_q02|]. split; [now apply col_sum_q03 | now apply col_sum_q00].
Qed.
Print Assumptions C12_column_sums_vanish.

(* every solution x of the first block row of  q x = rhs  carries  -S sum_j n_j sqrt(m_j) x_{0j} = sum_i rhs_i *)
Theorem C12_momentum_constraint : forall (masses nd : nat -> R) (nb : nat), (forall i, 0 < masses i) ->
  forall (Q : @qints R),
  (forall i l, I11 Q i l = I11 Q l i) -> (forall i l, I12 Q i l = I12 Q l i) ->
  (forall i l, I13 Q i l = I13 Q l i) -> (forall i l, I14 Q i l = I14 Q l i) ->
  forall (x : nat -> nat -> R) (rhs : nat -> R),
  (forall i, (i < nb)%nat -> row0 masses nd nb Q x i = rhs i) ->
  - Sconstraint masses nd nb (I11 Q) * sumn nb (fun j => nd j * sqrt (masses j) * x 0%nat j) = sumn nb rhs.
Proof. intros masses nd nb Hm Q S1 S2 S3 S4 x rhs. now apply momentum_constraint. Qed.
Print Assumptions C12_momentum_constraint.

(* the thermal-diffusion coefficients sum to zero *)
Theorem C12_thermal_diffusion_sums_to_zero : forall (masses nd : nat -> R) (nb : nat), (forall i, 0 < masses i) ->
  forall (Q : @qints R),
  (forall i l, I11 Q i l = I11 Q l i) -> (forall i l, I12 Q i l = I12 Q l i) ->
  (forall i l, I13 Q i l = I13 Q l i) -> (forall i l, I14 Q i l = I14 Q l i) ->
  forall (U : Units R) (T : R) (a : nat -> nat -> R),
  Sconstraint masses nd nb (I11 Q) <> 0 -> 0 <= k_b U * T ->
  (forall i, (i < nb)%nat -> row0 masses nd nb Q a i = 0) ->
  sumn nb (fun i => DTi_value RNum U T masses nd i (a 0%nat i)) = 0.
Proof. intros masses nd nb Hm Q S1 S2 S3 S4 U T a. now apply thermal_diffusion_sums_to_zero. Qed.
Print Assumptions C12_thermal_diffusion_sums_to_zero.

(* the multicomponent diffusion matrix has zero diagonal and satisfies sum_i m_i (m_h D_ih - m_k D_ik) = 0 *)
Theorem C12_diffusion_identities : forall (masses nd : nat -> R) (nb : nat), (forall i, 0 < masses i) ->
  forall (Q : @qints R),
  (forall i l, I11 Q i l = I11 Q l i) -> (forall i l, I12 Q i l = I12 Q l i) ->
  (forall i l, I13 Q i l = I13 Q l i) -> (forall i l, I14 Q i l = I14 Q l i) ->
  forall (U : Units R) (rho ntot T : R) (y : nat -> nat -> nat -> R),
  Sconstraint masses nd nb (I11 Q) <> 0 -> 0 <= k_b U * T -> ntot <> 0 ->
  (forall k, (k < nb)%nat -> forall i, (i < nb)%nat -> row0 masses nd nb Q (y k) i = 3 * sqrt PI * dlt i k) ->
  let c := fun i j p h => y i p h - y j p h in
  let D := fun i j => Dij_value RNum U rho ntot T masses nd i j (c i j 0%nat i) in
  (forall i j, (i < nb)%nat -> (j < nb)%nat -> forall h, (h < nb)%nat -> row0 masses nd nb Q (c i j) h = Dij_rhs RNum i j h) /\
  (forall i, D i i = 0) /\
  (forall h k, (h < nb)%nat -> (k < nb)%nat -> sumn nb (fun i => masses i * (masses h * D i h - masses k * D i k)) = 0).
Proof. intros masses nd nb Hm Q S1 S2 S3 S4 U rho ntot T y. now apply diffusion_identities. Qed.
Print Assumptions C12_diffusion_identities.

(* density scaling at fixed collision integrals: any solution, any number of species *)
Theorem C12_viscosity_density_scaling : forall (masses nd : nat -> R) (nb : nat) (Q : @qints R) (U : Units R) (T c : R) (x : nat -> R),
  c <> 0 -> visc_system masses nb Q U T nd x ->
  visc_system masses nb Q U T (fun i => c * nd i) (fun col => x col / c) /\
  visc_value RNum U T (fun i => c * nd i) nb (fun col => x col / c) = visc_value RNum U T nd nb x.
Proof. intros masses nd nb Q U T c x. apply viscosity_density_scaling. Qed.
Print Assumptions C12_viscosity_density_scaling.

Theorem C12_translational_conductivity_density_scaling : forall (masses nd : nat -> R) (nb : nat) (Q : @qints R) (U : Units R) (T c : R) (x : nat -> R),
  c <> 0 -> kdash_system masses nb Q nd x ->
  kdash_system masses nb Q (fun i => c * nd i) (fun col => x col / c) /\
  kdash_value RNum U T masses (fun i => c * nd i) nb (fun i => x (nb + i)%nat / c) = kdash_value RNum U T masses nd nb (fun i => x (nb + i)%nat).
Proof. intros masses nd nb Q U T c x. apply kdash_density_scaling. Qed.
Print Assumptions C12_translational_conductivity_density_scaling.

(* species splitting leaves the viscosity unchanged: blocks as assembled by the code (Transport.qhatblock, of which
   qhatentry is the flat indexing), any number of species, any species k, any split fraction f, any solution x *)
Theorem C12_viscosity_split_invariant :
  forall (U : Units R) (T : R) (masses nd : nat -> R) (nb k : nat) (f : R) (Qbar : nat -> nat -> nat -> nat -> R),
  (forall i, 0 < masses i) -> (k < nb)%nat -> (forall i, (i < nb)%nat -> nd i <> 0) ->
  forall x : nat -> nat -> R,
  visc_rows U T masses nd nb (qints_of Qbar) x ->
  visc_rows U T (masses' masses nb k) (nd' nd nb k f) (S nb) (qints_of (Qbar' nb k Qbar)) (fun p i => x p (origin nb k i)) /\
  visc_value RNum U T (nd' nd nb k f) (S nb) (fun i => x 0%nat (origin nb k i)) = visc_value RNum U T nd nb (x 0%nat).
Proof. intros U T masses nd nb k f Qbar Hm Hk Hn x. apply viscosity_split_invariant; assumption. Qed.
Print Assumptions C12_viscosity_split_invariant.

(* species splitting leaves the translational thermal conductivity unchanged.  Hypothesis on the solution: its first
   block satisfies the mass-flux constraint sum_j n_j sqrt(m_j) x_0j = 0, which C12_momentum_constraint derives for every
   solution of this system (right-hand side zero on the first block row) when the constraint factor is non-zero. *)
Theorem C12_translational_conductivity_split_invariant :
  forall (U : Units R) (T : R) (masses nd : nat -> R) (nb k : nat) (f : R) (Qbar : nat -> nat -> nat -> nat -> R),
  (forall i, 0 < masses i) -> (k < nb)%nat -> (forall i, (i < nb)%nat -> nd i <> 0) ->
  forall x : nat -> nat -> R,
  q_rows nb masses nd (qints_of Qbar) (kdash_rhs nd) x ->
  sumn nb (fun j => nd j * sqrt (masses j) * x 0%nat j) = 0 ->
  q_rows (S nb) (masses' masses nb k) (nd' nd nb k f) (qints_of (Qbar' nb k Qbar)) (kdash_rhs (nd' nd nb k f)) (fun p i => x p (origin nb k i)) /\
  kdash_value RNum U T (masses' masses nb k) (nd' nd nb k f) (S nb) (fun i => x 1%nat (origin nb k i)) = kdash_value RNum U T masses nd nb (x 1%nat).
Proof. intros U T masses nd nb k f Qbar Hm Hk Hn x. apply kdash_split_invariant; assumption. Qed.
Print Assumptions C12_translational_conductivity_split_invariant.

(* the same without the hypothesis on the solution: symmetric (1,s) collision integrals and a non-zero constraint factor *)
Theorem C12_translational_conductivity_split_invariant' :
  forall (U : Units R) (T : R) (masses nd : nat -> R) (nb k : nat) (f : R) (Qbar : nat -> nat -> nat -> nat -> R),
  (forall i, 0 < masses i) -> (k < nb)%nat -> (forall i, (i < nb)%nat -> nd i <> 0) ->
  (forall s i l, Qbar 1%nat s i l = Qbar 1%nat s l i) -> Sconstraint masses nd nb (Qbar 1%nat 1%nat) <> 0 ->
  forall x : nat -> nat -> R,
  q_rows nb masses nd (qints_of Qbar) (kdash_rhs nd) x ->
  q_rows (S nb) (masses' masses nb k) (nd' nd nb k f) (qints_of (Qbar' nb k Qbar)) (kdash_rhs (nd' nd nb k f)) (fun p i => x p (origin nb k i)) /\
  kdash_value RNum U T (masses' masses nb k) (nd' nd nb k f) (S nb) (fun i => x 1%nat (origin nb k i)) = kdash_value RNum U T masses nd nb (x 1%nat).
Proof.
  intros U T masses nd nb k f Qbar Hm Hk Hn Hsym HS x Hsys.
  apply C12_translational_conductivity_split_invariant; try assumption.
  assert (G := C12_momentum_constraint masses nd nb Hm (qints_of Qbar) (Hsym 1%nat) (Hsym 2%nat) (Hsym 3%nat) (Hsym 4%nat) x (fun _ => 0)).
  cbn [I11 qints_of] in G. rewrite sumn_zero in G.
  assert (E : - Sconstraint masses nd nb (Qbar 1%nat 1%nat) * sumn nb (fun j => nd j * sqrt (masses j) * x 0%nat j) = 0).
  { apply G. intros i Hi. apply (Hsys 0%nat i); [lia | exact Hi]. }
  apply Rmult_integral in E. destruct E as [E|E]; [exfalso; apply HS; lra | exact E].
Qed.
