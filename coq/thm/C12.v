(* C12 — transport coefficients obey exact invariances and conservation identities.
   Blocks q00 .. q03 are regenerated from functions_transport.py on every run; the assembly (block layout, right-hand
   sides, final formulae) is the hand-written model/Transport.v tied by the correspondence check.  Linear solves are
   not modelled: the theorems hold for ANY solution of the first block row.
   What is a theorem: column sums of the first block row, the momentum constraint it forces on every solution,
   sum_i D^T_i = 0, D_ii = 0 and the diffusion mass identity.  NOT a theorem (validated on the implementation):
   split invariance of a neutral species and density scaling in neutral mixtures. *)
From Coq Require Import Reals List.
Import ListNotations.
From MPC Require Import Num Species RInst StatMech RVec RSumIdx GenTransport Transport C12_proofs.
Open Scope R_scope.

(* columns of q^{0p}, p >= 1, sum to zero for symmetric collision integrals, any number of species, any masses > 0 *)
Theorem C12_column_sums_vanish : forall (masses nd : nat -> R) (nb : nat),
  (forall i, 0 < masses i) ->
  forall (Q11 Q12 Q13 Q14 : nat -> nat -> R) (j : nat), (j < nb)%nat ->
  (forall i l, Q11 i l = Q11 l i) -> (forall i l, Q12 i l = Q12 l i) ->
  (forall i l, Q13 i l = Q13 l i) -> (forall i l, Q14 i l = Q14 l i) ->
  sumn nb (fun i => q01 RNum Q11 Q12 masses nb nd i j) = 0 /\
  sumn nb (fun i => q02 RNum Q11 Q12 Q13 masses nb nd i j) = 0 /\
  sumn nb (fun i => q03 RNum Q11 Q12 Q13 Q14 masses nb nd i j) = 0 /\
  sumn nb (fun i => q00 RNum Q11 masses nb nd i j) = - (nd j * sqrt (masses j) * Sconstraint masses nd nb Q11).
Proof.
  intros masses nd nb Hm Q11 Q12 Q13 Q14 j Hj H1 H2 H3 H4.
  split; [now apply col_sum_q01|]. split; [now apply col_sum_q02|]. split; [now apply col_sum_q03 | now apply col_sum_q00].
Qed.
Print Assumptions C12_column_sums_vanish.

(* every solution x of the first block row of  q x = rhs  carries  -S sum_j n_j sqrt(m_j) x_{0j} = sum_i rhs_i *)
Theorem C12_momentum_constraint : forall (masses nd : nat -> R) (nb : nat), (forall i, 0 < masses i) ->
  forall (Q : @qints R),
  (forall i l, I11 Q i l = I11 Q l i) -> (forall i l, I12 Q i l = I12 Q l i) ->
  (forall i l, I13 Q i l = I13 Q l i) -> (forall i l, I14 Q i l = I14 Q l i) ->
  forall (x : nat -> nat -> R) (rhs : nat -> R),
  (forall i, (i < nb)%nat -> row0 masses nd nb Q x i = rhs i) ->
  - Sconstraint masses nd nb (I11 Q) * sumn nb (fun j => nd j * sqrt (masses j) * x 0%nat j) = sumn nb rhs.
Proof. intros masses nd nb Hm Q S1 S2 S3 S4 x rhs. now apply momentum_constraint. Qed.
Print Assumptions C12_momentum_constraint.

(* the thermal-diffusion coefficients sum to zero *)
Theorem C12_thermal_diffusion_sums_to_zero : forall (masses nd : nat -> R) (nb : nat), (forall i, 0 < masses i) ->
  forall (Q : @qints R),
  (forall i l, I11 Q i l = I11 Q l i) -> (forall i l, I12 Q i l = I12 Q l i) ->
  (forall i l, I13 Q i l = I13 Q l i) -> (forall i l, I14 Q i l = I14 Q l i) ->
  forall (U : Units R) (T : R) (a : nat -> nat -> R),
  Sconstraint masses nd nb (I11 Q) <> 0 -> 0 <= k_b U * T ->
  (forall i, (i < nb)%nat -> row0 masses nd nb Q a i = 0) ->
  sumn nb (fun i => DTi_value RNum U T masses nd i (a 0%nat i)) = 0.
Proof. intros masses nd nb Hm Q S1 S2 S3 S4 U T a. now apply thermal_diffusion_sums_to_zero. Qed.
Print Assumptions C12_thermal_diffusion_sums_to_zero.

(* the multicomponent diffusion matrix has zero diagonal and satisfies sum_i m_i (m_h D_ih - m_k D_ik) = 0 *)
Theorem C12_diffusion_identities : forall (masses nd : nat -> R) (nb : nat), (forall i, 0 < masses i) ->
  forall (Q : @qints R),
  (forall i l, I11 Q i l = I11 Q l i) -> (forall i l, I12 Q i l = I12 Q l i) ->
  (forall i l, I13 Q i l = I13 Q l i) -> (forall i l, I14 Q i l = I14 Q l i) ->
  forall (U : Units R) (rho ntot T : R) (y : nat -> nat -> nat -> R),
  Sconstraint masses nd nb (I11 Q) <> 0 -> 0 <= k_b U * T -> ntot <> 0 ->
  (forall k, (k < nb)%nat -> forall i, (i < nb)%nat -> row0 masses nd nb Q (y k) i = 3 * sqrt PI * dlt i k) ->
  let c := fun i j p h => y i p h - y j p h in
  let D := fun i j => Dij_value RNum U rho ntot T masses nd i j (c i j 0%nat i) in
  (forall i j, (i < nb)%nat -> (j < nb)%nat -> forall h, (h < nb)%nat -> row0 masses nd nb Q (c i j) h = Dij_rhs RNum i j h) /\
  (forall i, D i i = 0) /\
  (forall h k, (h < nb)%nat -> (k < nb)%nat -> sumn nb (fun i => masses i * (masses h * D i h - masses k * D i k)) = 0).
Proof. intros masses nd nb Hm Q S1 S2 S3 S4 U rho ntot T y. now apply diffusion_identities. Qed.
Print Assumptions C12_diffusion_identities.
