(* C01 — the returned composition satisfies the law of mass action.
   What is a theorem: the fixed points of the Newton iteration are exactly the mass-action states; the
   Newton-step residual identity; the Saha / Guldberg-Waage form; such a state is the global minimum of the ideal Gibbs
   function over all compositions with the same element and charge totals (it IS the equilibrium).  it is the only such state
   (uniqueness); the stopping quantity bounds the relative Newton step of every resolved species, and a species whose last
   step is small sits correspondingly close to mass action (error bound).  NOT a theorem: that the floating-point
   iteration reaches the fixed point for every (T, P, x0), i.e. that it stops at all un-warned; residuals above the
   mole-fraction floor are validated on the implementation. *)
From Coq Require Import Reals List Lra.
Import ListNotations.
From MPC Require Import Num Species RInst StatMech RVec GenSpecies RefEnergy Gibbs C02_proofs C01_proofs C09_proofs C10_proofs C10_kkt C01_unique C01_stop.
Open Scope R_scope.

(* the chemical potential as coded (with V = N_tot kT / P inside Z_tot) is a function of the density n = N/V only *)
Theorem C01_mu_depends_on_densities_only : forall (U : Units R) (T V : R) (sp : species R) (n e0 de : R),
  V <> 0 -> n <> 0 ->
  mu_entry RNum U T V sp n e0 de =
  e0 - k_b U * T * ln (translational_Z RNum U sp T * Zint RNum U sp T de / (n / V)).
Proof. exact mu_scale_free. Qed.
Print Assumptions C01_mu_depends_on_densities_only.

(* species row of the Newton system: (mu_i + (A lam)_i)/kT = sum(Nn)/sum(N) - Nn_i/N_i *)
Theorem C01_newton_residual_identity : forall kt ntot sn n nn al m : R,
  kt <> 0 -> ntot <> 0 -> n <> 0 ->
  species_residual RNum kt ntot sn n nn al m = 0 ->
  (m + al) / kt = sn / ntot - nn / n.
Proof. exact newton_residual_identity. Qed.
Print Assumptions C01_newton_residual_identity.

(* fixed point of the iteration <=> mu_i = -(A lam)_i : the chemical potentials are a linear combination
   of the species' element and charge content *)
Theorem C01_fixed_point_iff_equilibrium : forall kt ntot n al m : R,
  kt <> 0 -> ntot <> 0 -> n <> 0 ->
  (species_residual RNum kt ntot ntot n n al m = 0 <-> m = - al).
Proof. exact fixed_point_iff_equilibrium. Qed.
Print Assumptions C01_fixed_point_iff_equilibrium.

Theorem C01_residuals_at_fixed_point : forall (U : Units R) (T : R) (cols : list (list R)) (Ni mu lam : list R),
  k_b U * T <> 0 -> Rsum Ni <> 0 -> Forall (fun x => x <> 0) Ni ->
  kkt_species_residuals RNum U T cols Ni mu Ni lam =
  map (fun q => let '(n, (nn, (a, m))) := q in a + m)
      (combine Ni (combine Ni (combine (alam RNum cols lam (map (fun _ => 0) Ni)) mu))).
Proof. exact residuals_at_fixed_point. Qed.
Print Assumptions C01_residuals_at_fixed_point.

(* law of mass action: every reaction among the listed species balances *)
Theorem C01_mass_action_reactions : forall (nu : list R) (cols : list (list R)) (lam mu : list R),
  Forall (fun c => List.length c = List.length nu) cols ->
  Forall2 (fun mi ai => mi = - ai) mu (alam RNum cols lam (repeat 0 (List.length nu))) ->
  Forall (fun c => dotR c nu = 0) cols ->
  dotR nu mu = 0.
Proof. exact mass_action_reactions. Qed.
Print Assumptions C01_mass_action_reactions.

(* ... i.e. sum nu_i ln n_i = sum nu_i ln(Ztr_i Zint_i) - sum nu_i E0_i / kT : the Saha / Guldberg-Waage ratios *)
Theorem C01_saha_form : forall (kt : R) (nu E0 lq ln_n mu : list R),
  kt <> 0 ->
  mu = map (fun t => let '(e, (q, n)) := t in e - kt * (q - n)) (combine E0 (combine lq ln_n)) ->
  List.length E0 = List.length nu -> List.length lq = List.length nu -> List.length ln_n = List.length nu ->
  dotR nu mu = 0 ->
  dotR nu ln_n = dotR nu lq - dotR nu E0 / kt.
Proof. exact saha_form. Qed.
Print Assumptions C01_saha_form.

Theorem C01_mu_log_form : forall (U : Units R) (T V : R) (sp : species R) (n e0 de : R),
  0 < V -> 0 < n -> 0 < translational_Z RNum U sp T * Zint RNum U sp T de ->
  mu_entry RNum U T V sp n e0 de =
  e0 - k_b U * T * (ln (translational_Z RNum U sp T * Zint RNum U sp T de) - ln (n / V)).
Proof. exact mu_log_form. Qed.
Print Assumptions C01_mu_log_form.

(* a mass-action state is THE equilibrium: among all positive compositions with the same constraint totals (every constraint
   column orthogonal to N' - N) and the same species data, it has the smallest Gibbs energy G = sum N_i mu_i (Gibbs'
   inequality; reference energies and lowerings held at the values of the state, i.e. the ideal mixture) *)
Theorem C01_mass_action_state_minimises_gibbs :
  forall (U : Units R) (T P : R) (ps : list (entry * entry)) (cols : list (list R)) (lam : list R),
  0 < k_b U * T -> 0 < P -> ps <> [] -> Forall same_data ps -> Forall (pair_pos U T) ps ->
  let nu := map (fun p => e_n (snd p) - e_n (fst p)) ps in
  let mu := map (fun p => mu_at U T (Ntot (map fst ps) * (k_b U * T) / P) (fst p)) ps in
  Forall (fun c => List.length c = List.length nu) cols ->
  Forall2 (fun mi ai => mi = - ai) mu (alam RNum cols lam (repeat 0 (List.length nu))) ->
  Forall (fun c => dotR c nu = 0) cols ->
  Gibbs_fn U T P (map fst ps) <= Gibbs_fn U T P (map snd ps).
Proof. exact kkt_point_is_minimiser. Qed.
Print Assumptions C01_mass_action_state_minimises_gibbs.

(* ... and it is the ONLY one: two fixed points of the solver for the same species data at the same (T, P) and with the same
   constraint totals -- each with chemical potentials in the column space of the constraint matrix, each with its own
   multipliers -- have the same number densities N_i / V, V = (sum N) k T / P (strict form of Gibbs' inequality; ideal
   mixture as above).  What calculate_composition converges to is therefore determined by (species data, T, P, constraint
   totals) alone: not by the starting estimate (C06), the listing order (C05) or the representation of x0 (C04). *)
Theorem C01_equilibrium_unique :
  forall (U : Units R) (T P : R) (ps : list (entry * entry)) (cols : list (list R)) (lam1 lam2 : list R),
  0 < k_b U * T -> 0 < P -> ps <> [] -> Forall same_data ps -> Forall (pair_pos U T) ps ->
  let nu := map (fun p => e_n (snd p) - e_n (fst p)) ps in
  let mu1 := map (fun p => mu_at U T (Ntot (map fst ps) * (k_b U * T) / P) (fst p)) ps in
  let mu2 := map (fun p => mu_at U T (Ntot (map snd ps) * (k_b U * T) / P) (snd p)) ps in
  Forall (fun c => List.length c = List.length nu) cols ->
  Forall2 (fun mi ai => mi = - ai) mu1 (alam RNum cols lam1 (repeat 0 (List.length nu))) ->
  Forall2 (fun mi ai => mi = - ai) mu2 (alam RNum cols lam2 (repeat 0 (List.length nu))) ->
  Forall (fun c => dotR c nu = 0) cols ->
  forall p, In p ps ->
    e_n (snd p) / (Ntot (map snd ps) * (k_b U * T) / P) = e_n (fst p) / (Ntot (map fst ps) * (k_b U * T) / P).
Proof. exact kkt_points_same_densities. Qed.
Print Assumptions C01_equilibrium_unique.

(* the same for any two mutually stationary states: equal mole fractions *)
Theorem C01_stationary_states_same_fractions :
  forall (U : Units R) (T P : R) (ps : list (entry * entry)),
  0 < k_b U * T -> 0 < P -> ps <> [] -> Forall same_data ps -> Forall (pair_pos U T) ps ->
  stationary_against U T P ps -> stationary_against U T P (map swap ps) ->
  forall p, In p ps -> e_n (snd p) / Ntot (map snd ps) = e_n (fst p) / Ntot (map fst ps).
Proof. exact stationary_points_same_fractions. Qed.
Print Assumptions C01_stationary_states_same_fractions.

(* what "converged" means for the returned composition: the stopping quantity (model Gibbs.stop_quantity, tied to the code by
   recorded iterations) bounds the relative Newton step of every species above 1e-7 of the most abundant one ... *)
Theorem C01_stop_quantity_bounds_resolved_steps : forall (Ni Nn : list R) (rtol n nn : R),
  stop_quantity RNum Ni Nn <= rtol -> In (n, nn) (combine Ni Nn) ->
  1 / 10000000 * nth (argmax RNum Nn) Nn 0 < nn -> Rabs (nn - n) / nn <= rtol.
Proof. exact converged_resolved_steps_small. Qed.
Theorem C01_stop_quantity_judges_largest : forall (Ni Nn : list R),
  let j := argmax RNum Nn in Rabs (nth j Nn 0 - nth j Ni 0) / nth j Nn 0 <= stop_quantity RNum Ni Nn.
Proof. exact stop_quantity_bounds_largest. Qed.
(* ... and a species whose last relative step is at most eps < 1 is within (eps2 + eps / (1 - eps)) kT of mass action,
   eps2 bounding the relative change of the total particle number in that step (species row of the Newton system) *)
Theorem C01_small_step_near_mass_action : forall kt ntot sn n nn al m eps eps2 : R,
  0 < kt -> 0 < ntot -> 0 < n -> 0 < nn -> 0 <= eps < 1 ->
  species_residual RNum kt ntot sn n nn al m = 0 ->
  Rabs (nn - n) / nn <= eps -> Rabs (sn / ntot - 1) <= eps2 ->
  Rabs ((m + al) / kt) <= eps2 + eps / (1 - eps).
Proof. exact small_step_near_mass_action. Qed.
Print Assumptions C01_small_step_near_mass_action.

(* ... hence every reaction among such species (nu orthogonal to the constraint columns, so that sum nu_i (A lam)_i = 0) is
   balanced to within delta * sum |nu_i| kT: the law of mass action in quantitative form for a converged composition
   (entries (nu_i, mu_i, (A lam)_i); delta from C01_small_step_near_mass_action) *)
Theorem C01_converged_reactions_balanced : forall (kt delta : R) (l : list (R * R * R)),
  0 < kt ->
  (forall t, In t l -> Rabs ((t_mu t + t_al t) / kt) <= delta) ->
  Rsum (map (fun t => t_nu t * t_al t) l) = 0 ->
  Rabs (Rsum (map (fun t => t_nu t * t_mu t) l) / kt) <= delta * Rsum (map (fun t => Rabs (t_nu t)) l).
Proof. exact reaction_balance_bound. Qed.
Print Assumptions C01_converged_reactions_balanced.

(* non-vacuity: O2 <-> 2 O with columns (element O; charge): nu = (1, -2) is a reaction *)
Example C01_reaction_exists : Forall (fun c => dotR c [1; -2] = 0) [[2; 1]; [0; 0]].
Proof. repeat constructor; unfold dotR; cbn; lra. Qed.
