(* C02 — the composition conserves elements, is electroneutral, positive and obeys p = n k T.
   What is a theorem here: invariants of EVERY iterate of the relaxed Newton iteration (hand model
   model/Gibbs.v, tied to calculate_composition by recorded solver iterations).  The linear solver is not
   modelled: `Nn` is ANY proposal whose constraint rows are satisfied (resp. any proposal at all for positivity).
   NOT a theorem (validated on the implementation): that the returned iterate has in fact seen a full step /
   that round-off leaves the residual at the double-precision floor; finiteness. *)
From Coq Require Import Reals List Lra.
Import ListNotations.
From MPC Require Import Num Species RInst StatMech RVec RefEnergy Gibbs C02_proofs.
Open Scope R_scope.

(* full statement (for reference; not asserted): *)
Definition C02_statement : Prop :=
  forall (U : Units R) (T P : R) (cols : list (list R)) (b N_returned : list R),
  (* "N_returned is what calculate_composition returns without warning" is not expressible in the model *)
  True -> Forall2 (fun c bk => dotR c N_returned = bk) cols b /\ Forall (fun x => 0 < x) N_returned.

(* any solution of the Newton system satisfies the element and charge constraints *)
Theorem C02_newton_satisfies_constraints : forall (cols : list (list R)) (b Nn : list R),
  List.length cols = List.length b ->
  Forall (fun x => x = 0) (kkt_constraint_residuals RNum cols b Nn) ->
  Forall2 (fun c bk => dotR c Nn = bk) cols b.
Proof. exact constraint_rows_zero. Qed.
Print Assumptions C02_newton_satisfies_constraints.

(* the relaxed update contracts every constraint residual by exactly (1 - r) *)
Theorem C02_relax_contracts_residual : forall (c Ni Nn : list R) (bk r : R),
  List.length c = List.length Ni -> List.length Ni = List.length Nn -> dotR c Nn = bk ->
  dotR c (relaxed RNum r Ni Nn) - bk = (1 - r) * (dotR c Ni - bk).
Proof. exact relax_contracts_residual. Qed.
Print Assumptions C02_relax_contracts_residual.

(* once satisfied (e.g. after one full step r = 1) the constraints stay satisfied at every later iterate *)
Theorem C02_constraints_preserved : forall (c Ni Nn : list R) (bk r : R),
  List.length c = List.length Ni -> List.length Ni = List.length Nn ->
  dotR c Nn = bk -> dotR c Ni = bk -> dotR c (relaxed RNum r Ni Nn) = bk.
Proof. exact constraints_preserved. Qed.
Print Assumptions C02_constraints_preserved.

Theorem C02_full_step_exact : forall (c Ni Nn : list R) (bk : R),
  List.length c = List.length Ni -> List.length Ni = List.length Nn ->
  dotR c Nn = bk -> dotR c (relaxed RNum 1 Ni Nn) = bk.
Proof. exact full_step_exact. Qed.
Print Assumptions C02_full_step_exact.

(* every iterate is strictly positive — for ARBITRARY proposals Nn (even garbage from an ill-conditioned solve),
   and the relaxation factor lies in (0, 1] *)
Theorem C02_iterates_positive : forall (g : R) (Ni Nn : list R),
  0 < g < 1 -> Forall (fun x => 0 < x) Ni -> List.length Ni = List.length Nn ->
  Forall (fun x => 0 < x) (relaxed RNum (relax_factor RNum g Ni Nn) Ni Nn)
  /\ 0 < relax_factor RNum g Ni Nn <= 1.
Proof.
  intros g Ni Nn Hg Hp Hl. split; [now apply iterates_positive|].
  destruct Hg as [Hg0 _]. exact (proj1 (relax_factor_bounds g Ni Nn Hg0 Hp Hl)).
Qed.
Print Assumptions C02_iterates_positive.

(* number densities n = N / V with V = (sum N) k T / P: total density P / kT, all positive,
   constraint totals divided by the same volume (so element ratios and neutrality carry over) *)
Theorem C02_ideal_gas : forall (U : Units R) (T P : R) (Ni : list R),
  0 < k_b U * T -> 0 < P -> Ni <> [] -> Forall (fun x => 0 < x) Ni ->
  Rsum (number_densities RNum U T P Ni) = P / (k_b U * T) /\
  Forall (fun x => 0 < x) (number_densities RNum U T P Ni).
Proof.
  intros U T P Ni HkT HP Hne Hpos. unfold number_densities. split.
  - apply ideal_gas; try lra. assert (0 < Rsum Ni) by (apply Forall_pos_sum; assumption). lra.
  - now apply densities_positive.
Qed.
Print Assumptions C02_ideal_gas.

Theorem C02_densities_keep_constraint_ratios : forall (U : Units R) (T P : R) (c Ni : list R) (bk : R),
  dotR c Ni = bk ->
  dotR c (number_densities RNum U T P Ni) = bk / (Rsum Ni * (k_b U * T) / P).
Proof. exact densities_constraint. Qed.
Print Assumptions C02_densities_keep_constraint_ratios.

(* non-vacuity: a two-species iterate and proposal meeting the hypotheses *)
Example C02_hypotheses_satisfiable :
  (0 < 9/10 < 1) /\ Forall (fun x => 0 < x) [1; 2] /\ List.length [1; 2] = List.length [-5; 7].
Proof. split; [lra|]. split; [repeat constructor; lra | reflexivity]. Qed.

(* every reachable iterate is strictly positive: any starting estimate with positive entries, any number of relaxed updates,
   any proposals of the right length (whatever the linear solver returns), any governor factors in (0, 1) *)
Theorem C02_every_iterate_positive : forall (N0 : list R) (steps : list (R * list R)),
  Forall (fun x => 0 < x) N0 ->
  Forall (fun st => 0 < fst st < 1 /\ List.length (snd st) = List.length N0) steps ->
  Forall (fun x => 0 < x) (run_iterates N0 steps).
Proof. intros N0 steps H1 H2. exact (proj1 (run_iterates_positive steps N0 H1 H2)). Qed.
Print Assumptions C02_every_iterate_positive.

(* constraint residuals along any run (proposals satisfy the row, as every solution of the Newton system does): the residual
   of the returned iterate is the initial one times a factor in [0, 1] — it never grows and never changes sign *)
Theorem C02_run_residual_contracts : forall (c : list R) (bk : R) (steps : list (R * list R)) (N0 : list R),
  Forall (fun x => 0 < x) N0 -> List.length c = List.length N0 ->
  Forall (fun st => 0 < fst st < 1 /\ List.length (snd st) = List.length N0 /\ dotR c (snd st) = bk) steps ->
  exists rho, 0 <= rho <= 1 /\ dotR c (run_iterates N0 steps) - bk = rho * (dotR c N0 - bk).
Proof. intros c bk steps N0. apply run_residual_contracts. Qed.
