(* C13 — collision integrals are symmetric, admissible and taken from the documented interaction class.
   Qij, Qij_class (the same decision chain with class tags), Qc, Qe_closed, Qnn_fit, Qin_fit, Qtr, cl_charged, ... are
   regenerated from functions_transport.py on every run (the Laricchiuta tables are read from the module).
   Hand-written and tied by correspondence: harmonic sums, the recursion wrapper Q_recursion (the code's recursion guard is
   checked syntactically to have exactly the documented shape), the unpacking of electron_cross_section.
   RESTRICTED clauses: the electron-neutral closed form is proved equal to the thermal average of its cross-section law only for
   the hard-sphere case D2 = 0 (no Gamma function in the installed libraries; the general case is validated by quadrature);
   finiteness is a floating-point notion (tested). *)
From Coq Require Import Reals List ZArith Bool.
Import ListNotations.
From MPC Require Import Num Species RInst RefEnergy TransportLib GenTransport Transport C13_proofs.
Open Scope R_scope.

Section Dispatch.
Context {A : Type} (N : Num A) (U : Units A).
Variables (si sj : species A) (ni nj T : A) (l s : nat).
Hypothesis Hei : is_e si = true -> charge_number si = (-1)%Z.
Hypothesis Hej : is_e sj = true -> charge_number sj = (-1)%Z.
Notation cls := (Qij_class si ni sj nj l s T).
Notation zi := (charge_number si).
Notation zj := (charge_number sj).

(* Coulomb for any two charged particles *)
Theorem C13_class_coulomb : (exists b, cls = CCall Qc_tag b) <-> (zi <> 0%Z /\ zj <> 0%Z).
Proof. exact (class_coulomb si sj ni nj T l s Hei Hej). Qed.
(* the empirical fit for electron-neutral pairs, applied to the neutral *)
Theorem C13_class_electron_neutral :
  (exists b, cls = CCall Qe_tag b) <-> ((is_e sj = true /\ zi = 0%Z) \/ (is_e si = true /\ zj = 0%Z)).
Proof. exact (class_electron_neutral si sj ni nj T l s Hei Hej). Qed.
Theorem C13_class_neutral_neutral : (exists b, cls = CCall Qnn_tag b) <-> (zi = 0%Z /\ zj = 0%Z).
Proof. exact (class_neutral_neutral si sj ni nj T l s Hei Hej). Qed.
(* resonant charge transfer only between a species and its own ion differing by one charge, only for odd l *)
Theorem C13_class_charge_transfer :
  (exists b, cls = CCall Qtr_tag b) <->
  (tr_conditions si sj l = true /\ is_e si = false /\ is_e sj = false /\ ((zi = 0%Z /\ zj <> 0%Z) \/ (zi <> 0%Z /\ zj = 0%Z))).
Proof. exact (class_charge_transfer si sj ni nj T l s Hei Hej). Qed.
Theorem C13_class_ion_neutral :
  (exists b, cls = CCall Qin_tag b) <->
  (tr_conditions si sj l = false /\ is_e si = false /\ is_e sj = false /\ ((zi = 0%Z /\ zj <> 0%Z) \/ (zi <> 0%Z /\ zj = 0%Z))).
Proof. exact (class_ion_neutral si sj ni nj T l s Hei Hej). Qed.
Theorem C13_class_never_unknown : cls <> CUnknown.
Proof. exact (class_never_unknown si sj ni nj T l s Hei Hej). Qed.
(* the value is the one of the class *)
Theorem C13_Qij_by_class :
  Qij N U si ni sj nj l s T =
  match cls with
  | CCall Qc_tag _ => Qc N U si ni sj nj l s T
  | CCall Qe_tag first => Qe N U (if first then si else sj) l s T
  | CCall Qnn_tag _ => Qnn N U si sj l s T
  | CCall Qtr_tag _ => Qtr N U si sj s T
  | CCall Qin_tag first => if first then Qin N U si sj l s T else Qin N U sj si l s T
  | CUnknown => ndiv N (nofZ N 0%Z) (nofZ N 0%Z)
  end.
Proof. exact (Qij_by_class N U si sj ni nj T l s). Qed.
End Dispatch.
Print Assumptions C13_class_charge_transfer.

(* the same whichever species is named first (for an electron-electron pair both densities are the electron density) *)
Theorem C13_Qij_symmetric : forall (U : Units R) (G : R -> R) (si sj : species R) (ni nj : R) (l s : nat) (T : R),
  (is_e si = true -> charge_number si = (-1)%Z) -> (is_e sj = true -> charge_number sj = (-1)%Z) ->
  (sname si = 0%nat -> sname sj = 0%nat -> ni = nj) ->
  Qij (RNumG G) U si ni sj nj l s T = Qij (RNumG G) U sj nj si ni l s T.
Proof. exact Qij_symmetric. Qed.
Print Assumptions C13_Qij_symmetric.

(* Coulomb integrals: C1(l) pi / (s (s+1)) * (k_e e^2 / 2k)^2 * (z_i z_j / T)^2 * (ln Lambda + ln 2 - C2(l) - 2 gamma + psi(s)) *)
Theorem C13_Qc_scaling : forall (U : Units R) (G : R -> R) (si sj : species R) (ni nj : R) (l s : nat) (T : R),
  (1 <= s)%nat -> T <> 0 -> k_b U <> 0 ->
  Qc (RNumG G) U si ni sj nj l s T =
  (IZR (nth (Z.to_nat (Z.of_nat l - 1)) [4; 12; 12; 16]%Z 0%Z) * PI / IZR (Z.of_nat s * (Z.of_nat s + 1)))
  * (ke_c U * e_ch U ^ 2 / (2 * k_b U)) ^ 2 * (IZR (charge_number si) * IZR (charge_number sj) / T) ^ 2
  * (cl_charged (RNumG G) U si sj ni nj T + ln 2 - nth (Z.to_nat (Z.of_nat l - 1)) [1/2; 1; 7/6; 4/3] 0 - 2 * egamma U + psiconst (RNumG G) s).
Proof. exact Qc_scaling. Qed.
(* positive whenever the documented Coulomb logarithm is above 2 *)
Theorem C13_Qc_positive : forall (U : Units R) (G : R -> R) (si sj : species R) (ni nj : R) (l s : nat) (T : R),
  (1 <= l <= 4)%nat -> (1 <= s)%nat -> T <> 0 -> k_b U <> 0 ->
  ke_c U * e_ch U ^ 2 <> 0 -> charge_number si <> 0%Z -> charge_number sj <> 0%Z ->
  577 / 1000 < egamma U < 5773 / 10000 ->
  2 < cl_charged (RNumG G) U si sj ni nj T ->
  0 < Qc (RNumG G) U si ni sj nj l s T.
Proof. exact Qc_positive. Qed.
Print Assumptions C13_Qc_positive.

(* non-Coulomb classes are positive *)
Theorem C13_Qtr_positive : forall (U : Units R) (G : R -> R) (si sj : species R) (s : nat) (T : R),
  (s <= 7)%nat ->
  B_fit (RNumG G) U (ionisation_energy (if Z.ltb (charge_number si) (charge_number sj) then si else sj)) <> 0 ->
  0 < Qtr (RNumG G) U si sj s T.
Proof. exact Qtr_positive. Qed.
Theorem C13_Qnn_Qin_fit_positive : forall (U : Units R) (G : R -> R) (si sj : species R) (l s : nat) (T : R),
  (fst (pot_nn (RNumG G) si sj) * x0_nn (RNumG G) (beta_par (RNumG G) si sj) <> 0 -> 0 < Qnn_fit (RNumG G) U si sj l s T) /\
  (fst (pot_in (RNumG G) si sj) * x0_in (RNumG G) (beta_par (RNumG G) si sj) <> 0 -> 0 < Qin_fit (RNumG G) U si sj l s T).
Proof. intros. split; [apply Qnn_fit_positive | apply Qin_fit_positive]. Qed.
(* electron-neutral: at least D1 for non-negative fit parameters (Gamma positive at the two arguments it is evaluated at);
   for D2 = 0 it IS the constant cross-section D1, the thermal average of a constant *)
Theorem C13_Qe_closed : forall (U : Units R) (G : R -> R) (D1 D2 D3 D4 : R) (sp : species R) (l s : nat) (T : R),
  (0 <= D2 -> 0 <= D4 -> 0 < G (D3 / 2 + IZR (Z.of_nat s) + 2) -> 0 < G (IZR (Z.of_nat s + 2)) ->
   D1 <= Qe_closed (RNumG G) U D1 D2 D3 D4 sp l s T) /\
  Qe_closed (RNumG G) U D1 0 D3 D4 sp l s T = D1.
Proof. intros. split; [apply Qe_closed_lower | apply Qe_closed_hard_sphere]. Qed.
Print Assumptions C13_Qe_closed.

(* orders beyond the fitted table obey Q(l,s,T) = Q(l,s-1,T) + T/(s+1) (Q(l,s-1,T+1/2) - Q(l,s-1,T-1/2)), and among the
   16 consumed orders the recursion is used exactly for (1,6) (1,7) (2,5) (2,6) (3,4) (3,5) *)
Theorem C13_recursion_form : forall (U : Units R) (G : R -> R) (si sj : species R) (l s : nat) (T : R),
  Qnn_guard l s = true -> (s <= 8)%nat ->
  Qnn (RNumG G) U si sj l s T =
  Qnn (RNumG G) U si sj l (s - 1) T + T / IZR (Z.of_nat (s + 1)) * (Qnn (RNumG G) U si sj l (s - 1) (T + 1 / 2) - Qnn (RNumG G) U si sj l (s - 1) (T - 1 / 2)).
Proof.
  intros U G si sj l s T Hg Hs. unfold Qnn.
  exact (recursion_form (RNumG G) (Qnn_guard l) (Qnn_fit (RNumG G) U si sj l) (proj1 (proj2 (proj2 guard_selects)) l) 8 s T Hg Hs).
Qed.
Theorem C13_recursion_form_ion_neutral : forall (U : Units R) (G : R -> R) (si sj : species R) (l s : nat) (T : R),
  Qin_guard l s = true -> (s <= 8)%nat ->
  Qin (RNumG G) U si sj l s T =
  Qin (RNumG G) U si sj l (s - 1) T + T / IZR (Z.of_nat (s + 1)) * (Qin (RNumG G) U si sj l (s - 1) (T + 1 / 2) - Qin (RNumG G) U si sj l (s - 1) (T - 1 / 2)).
Proof.
  intros U G si sj l s T Hg Hs. unfold Qin.
  exact (recursion_form (RNumG G) (Qin_guard l) (Qin_fit (RNumG G) U si sj l) (proj2 (proj2 (proj2 guard_selects)) l) 8 s T Hg Hs).
Qed.
Theorem C13_guard_selects :
  filter (fun ls => Qnn_guard (fst ls) (snd ls)) consumed_orders = [(1,6);(1,7);(2,5);(2,6);(3,4);(3,5)]%nat /\
  filter (fun ls => Qin_guard (fst ls) (snd ls)) consumed_orders = [(1,6);(1,7);(2,5);(2,6);(3,4);(3,5)]%nat.
Proof. split; [exact (proj1 guard_selects) | exact (proj1 (proj2 guard_selects))]. Qed.
Print Assumptions C13_recursion_form.

(* the matrices handed to q / qhat (model Transport.Qmix of functions_transport.Qij_mix, tied by comparing whole matrices):
   symmetric, and attached to the species, not to list positions *)
Theorem C13_Qmix_symmetric : forall (U : Units R) (G : R -> R) (sps : list (species R)) (nd : list R) (l s : nat) (T : R) (i j : nat),
  (forall sp : species R, is_e sp = true -> charge_number sp = (-1)%Z) ->
  (sname (nth i sps (dummy_species 0)) = 0%nat -> sname (nth j sps (dummy_species 0)) = 0%nat -> nth i nd 0 = nth j nd 0) ->
  Qmix (RNumG G) U sps nd l s T i j = Qmix (RNumG G) U sps nd l s T j i.
Proof.
  intros U G sps nd l s T i j He Hn. unfold Qmix. apply C13_Qij_symmetric; [apply He | apply He | exact Hn].
Qed.

Lemma nth_map_seq {B} (f : nat -> B) (nb k : nat) (d : B) : (k < nb)%nat -> nth k (map f (seq 0 nb)) d = f k.
Proof.
  intros Hk. rewrite (nth_indep (map f (seq 0 nb)) d (f 0%nat)) by (rewrite map_length, seq_length; exact Hk).
  rewrite (map_nth f (seq 0 nb) 0%nat k), seq_nth by exact Hk. reflexivity.
Qed.

Theorem C13_Qmix_relisting : forall (U : Units R) (G : R -> R) (sps : list (species R)) (nd : list R) (nb : nat) (sigma : nat -> nat) (l s : nat) (T : R) (i j : nat),
  (i < nb)%nat -> (j < nb)%nat ->
  Qmix (RNumG G) U (map (fun k => nth (sigma k) sps (dummy_species 0)) (seq 0 nb)) (map (fun k => nth (sigma k) nd 0) (seq 0 nb)) l s T i j
  = Qmix (RNumG G) U sps nd l s T (sigma i) (sigma j).
Proof.
  intros U G sps nd nb sigma l s T i j Hi Hj. unfold Qmix. cbn [nofZ RNumG].
  rewrite !(nth_map_seq _ nb i _ Hi), !(nth_map_seq _ nb j _ Hj). reflexivity.
Qed.
Print Assumptions C13_Qmix_relisting.
