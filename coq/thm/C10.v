(* C10 — equilibrium responds to T and P as thermodynamic stability requires.  PARTIAL.
   Theorems (kernels regenerated from species.py / mixture.py on every run):
     - every species' internal energy strictly increases with T at fixed lowering (atomic level sums: any level list,
       any order; vibrational / rotational closed forms), hence the mixture enthalpy kernel strictly increases with T
       when composition, reference energies and lowerings are held fixed: FROZEN heat capacity is positive;
     - ideal mixture (reference energies and lowerings not changing with P): exact minimisers of the Gibbs function
       built from the solver's chemical-potential kernel have sum N non-increasing in P (revealed preference, any
       number of species and reactions), hence the mean molar mass does not decrease with P;
     - single ionisation {X, X+, e}: mass action fixes c+ ce / c0 independently of P, and the electron mole
       fraction strictly decreases with P.
   NOT proved: the reactive part of the heat capacity (composition changing with T), the T-monotonicity of the mean
   molar mass, anything with the Stewart-Pyatt lowering varying between the two states; these are validated on
   temperature / pressure ladders by the harness. *)
From Coq Require Import Reals List ZArith Lra.
Import ListNotations.
From MPC Require Import Num Species RInst StatMech RVec GenSpecies GenMixture RefEnergy Gibbs C09_proofs C10_proofs C10_kkt.
Open Scope R_scope.

Definition constants_ok (U : Units R) : Prop := 0 < k_b U /\ 0 < N_a U /\ h_pl U <> 0.

Theorem C10_internal_energy_increasing : forall (U : Units R) (s : species R) (T1 T2 dE : R),
  constants_ok U -> 0 < T1 -> T1 < T2 -> thermo_ok s dE ->
  Uint RNum U s T1 dE < Uint RNum U s T2 dE.
Proof. intros U s T1 T2 dE [H1 [H2 H3]]. exact (Uint_increasing U H1 s T1 T2 dE). Qed.
Print Assumptions C10_internal_energy_increasing.

Theorem C10_frozen_enthalpy_increasing : forall (U : Units R) (l : list entry) (T1 T2 : R),
  constants_ok U -> 0 < T1 -> T1 < T2 ->
  Forall (fun e => 0 < molar_mass (e_sp e) /\ 0 <= e_n e /\ thermo_ok (e_sp e) (e_dE e)) l ->
  Exists (fun e => 0 < e_n e) l ->
  enthalpy RNum U T1 (map e_sp l) (map e_n l) (map e_E0 l) (map e_dE l)
  < enthalpy RNum U T2 (map e_sp l) (map e_n l) (map e_E0 l) (map e_dE l).
Proof. intros U l T1 T2 [H1 [H2 H3]]. exact (frozen_enthalpy_increasing U H1 H2 l T1 T2). Qed.
Print Assumptions C10_frozen_enthalpy_increasing.

Theorem C10_gibbs_pressure_shift : forall (U : Units R) (T P1 P2 : R) (l : list entry),
  0 < k_b U * T -> 0 < P1 -> 0 < P2 -> l <> [] -> Forall (entry_pos U T) l ->
  Gibbs_fn U T P2 l = Gibbs_fn U T P1 l + k_b U * T * ln (P2 / P1) * Ntot l.
Proof. exact Gibbs_pressure_shift. Qed.

Theorem C10_pressure_response_ideal : forall (U : Units R) (T P1 P2 : R) (l1 l2 : list entry),
  0 < k_b U * T -> 0 < P1 -> P1 < P2 -> l1 <> [] -> l2 <> [] -> Forall (entry_pos U T) l1 -> Forall (entry_pos U T) l2 ->
  Gibbs_fn U T P1 l1 <= Gibbs_fn U T P1 l2 -> Gibbs_fn U T P2 l2 <= Gibbs_fn U T P2 l1 ->
  Ntot l2 <= Ntot l1 /\
  (mass_of l1 = mass_of l2 -> 0 <= mass_of l1 -> 0 < Ntot l2 -> mass_of l1 / Ntot l1 <= mass_of l2 / Ntot l2).
Proof.
  intros U T P1 P2 l1 l2 HkT HP1 HP H1 H2 Ha1 Ha2 Ho1 Ho2.
  assert (G := pressure_response_ideal U T P1 P2 l1 l2 HkT HP1 HP H1 H2 Ha1 Ha2 Ho1 Ho2).
  split; [exact G|]. intros Hm Hpos HN. apply mean_molar_mass_response; assumption.
Qed.
Print Assumptions C10_pressure_response_ideal.

Theorem C10_saha_constant : forall (U : Units R) (T V : R) (s0 sp se : species R) (n0 np ne e0 ep ee d0 dp de : R),
  0 < k_b U * T -> 0 < V -> 0 < n0 -> 0 < np -> 0 < ne ->
  0 < translational_Z RNum U s0 T * Zint RNum U s0 T d0 ->
  0 < translational_Z RNum U sp T * Zint RNum U sp T dp ->
  0 < translational_Z RNum U se T * Zint RNum U se T de ->
  mu_entry RNum U T V s0 n0 e0 d0 = mu_entry RNum U T V sp np ep dp + mu_entry RNum U T V se ne ee de ->
  (np / V) * (ne / V) / (n0 / V)
  = translational_Z RNum U sp T * Zint RNum U sp T dp * (translational_Z RNum U se T * Zint RNum U se T de)
    / (translational_Z RNum U s0 T * Zint RNum U s0 T d0) * exp (- (ep + ee - e0) / (k_b U * T)).
Proof. exact saha_constant_from_mass_action. Qed.

Theorem C10_single_ionisation_pressure : forall (S n1 n2 c0 ce c0' ce' : R),
  0 < S -> 0 < n1 -> n1 < n2 -> 0 < c0 -> 0 < ce -> 0 < c0' -> 0 < ce' ->
  c0 + ce + ce = n1 -> c0' + ce' + ce' = n2 -> ce * ce = S * c0 -> ce' * ce' = S * c0' ->
  ce' / n2 < ce / n1.
Proof. exact single_ionisation_pressure. Qed.
Print Assumptions C10_single_ionisation_pressure.


(* the "exact minimiser" hypothesis above is met by the solver's fixed points: for the ideal mixture, a point whose chemical
   potentials lie in the column space of the constraint matrix (mu = -(A lam): the fixed-point condition of C01) has the
   smallest Gibbs energy among all feasible compositions (Gibbs' inequality) *)
Theorem C10_kkt_point_is_minimiser : forall (U : Units R) (T P : R) (ps : list (entry * entry)) (cols : list (list R)) (lam : list R),
  0 < k_b U * T -> 0 < P -> ps <> [] -> Forall same_data ps -> Forall (pair_pos U T) ps ->
  let nu := map (fun p => e_n (snd p) - e_n (fst p)) ps in
  let mu := map (fun p => mu_at U T (Ntot (map fst ps) * (k_b U * T) / P) (fst p)) ps in
  Forall (fun c => List.length c = List.length nu) cols ->
  Forall2 (fun mi ai => mi = - ai) mu (alam RNum cols lam (repeat 0 (List.length nu))) ->
  Forall (fun c => dotR c nu = 0) cols ->
  Gibbs_fn U T P (map fst ps) <= Gibbs_fn U T P (map snd ps).
Proof. exact kkt_point_is_minimiser. Qed.
Print Assumptions C10_kkt_point_is_minimiser.

(* Le Chatelier for stationary points themselves: pairs (state at P1, state at P2) of the same ideal mixture *)
Theorem C10_pressure_response_stationary : forall (U : Units R) (T P1 P2 : R) (ps : list (entry * entry)),
  0 < k_b U * T -> 0 < P1 -> P1 < P2 -> ps <> [] -> Forall same_data ps -> Forall (pair_pos U T) ps ->
  stationary_against U T P1 ps -> stationary_against U T P2 (map swap ps) ->
  Ntot (map snd ps) <= Ntot (map fst ps).
Proof. exact pressure_response_stationary. Qed.
Print Assumptions C10_pressure_response_stationary.

(* "enthalpy strictly increases with T" and "heat capacity is positive" are the same clause for the implementation's heat
   capacity (regenerated from LTE.calculate_heat_capacity, enthalpy oracle H): it is positive exactly when the enthalpy at
   T(1+d) exceeds the enthalpy at T(1-d); so a strictly increasing enthalpy gives a positive heat capacity at every T, d > 0 *)
Theorem C10_heat_capacity_positive_iff_enthalpy_rises : forall (H : R -> R) (T d : R), 0 < T -> 0 < d ->
  (0 < heat_capacity RNum H T d <-> H (T * (1 - d)) < H (T * (1 + d))).
Proof. exact heat_capacity_pos_iff. Qed.
Theorem C10_heat_capacity_positive_of_increasing_enthalpy : forall (H : R -> R) (T d : R), 0 < T -> 0 < d ->
  (forall x y, x < y -> H x < H y) -> 0 < heat_capacity RNum H T d.
Proof. exact heat_capacity_pos_of_increasing. Qed.
Print Assumptions C10_heat_capacity_positive_iff_enthalpy_rises.

(* the two together: the FROZEN heat capacity -- the regenerated heat_capacity applied to the regenerated enthalpy kernel at fixed
   composition, reference energies and lowerings -- is strictly positive for every T > 0 and every relative step 0 < d < 1 *)
Theorem C10_frozen_heat_capacity_positive : forall (U : Units R) (l : list entry) (T d : R),
  constants_ok U -> 0 < T -> 0 < d < 1 ->
  Forall (fun e => 0 < molar_mass (e_sp e) /\ 0 <= e_n e /\ thermo_ok (e_sp e) (e_dE e)) l ->
  Exists (fun e => 0 < e_n e) l ->
  0 < heat_capacity RNum (fun t => enthalpy RNum U t (map e_sp l) (map e_n l) (map e_E0 l) (map e_dE l)) T d.
Proof.
  intros U l T d Hc HT [Hd0 Hd1] Hl He.
  apply heat_capacity_pos_iff; [assumption | assumption |].
  apply C10_frozen_enthalpy_increasing; try assumption.
  - apply Rmult_lt_0_compat; lra.
  - apply Rmult_lt_compat_l; lra.
Qed.
Print Assumptions C10_frozen_heat_capacity_positive.

(* non-vacuity: a two-level atom meets thermo_ok; the closed-form hypotheses have a solution (S = 1: c0 = 1, ce = 1, n = 3) *)
Example C10_hypotheses_satisfiable :
  thermo_ok (mkSpecies R KMono 1 [] 1 0%Z 10 0 [(0, 0); (1, 5)] 0 0 0 0 false [] [] 0 0 None None []) 1 /\
  (1 + 1 + 1 = 3 /\ 1 * 1 = 1 * 1).
Proof.
  split; [|lra]. unfold thermo_ok. cbn [kind energy_levels ionisation_energy]. split.
  - intros JE [H|[H|[]]]; subst; cbn [fst]; lra.
  - exists (0, 0). split; [now left | cbn [snd]; lra].
Qed.
