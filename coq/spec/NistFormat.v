(* NistFormat.v — what a printed NIST-style line is (written from the property text):
   '|'-terminated fields, each a decimal number or a fraction a/b, decorated with blanks and the
   annotation characters + x ? [ ] ( ).  Independent of the parser model. *)
From Coq Require Import List Ascii NArith ZArith Bool.
Import ListNotations.
From MPC Require Import Parser.
Open Scope char_scope.

(* a printed number: [sign] int-digits [ "." frac-digits ] [ (e|E) [sign] exp-digits ] *)
Record pnum := mkPnum {
  p_neg : bool; p_plus : bool;                 (* "-" / an explicit "+" *)
  p_int : list digit;
  p_frac : option (list digit);                (* Some fs: a "." was printed, followed by fs *)
  p_exp : option (bool * (bool * bool) * list digit)   (* (upper-case E?, (exponent negative?, explicit +?), digits) *)
}.

Definition render_digits (ds : list digit) : str := map char_of_digit ds.
Definition render_sign (neg plus : bool) : str := if neg then ["-"] else if plus then ["+"] else [].
Definition render_num (n : pnum) : str :=
  render_sign (p_neg n) (p_plus n) ++ render_digits (p_int n)
  ++ match p_frac n with None => [] | Some fs => "." :: render_digits fs end
  ++ match p_exp n with
     | None => []
     | Some (up, (eneg, eplus), ed) => (if up then "E" else "e") :: render_sign eneg eplus ++ render_digits ed
     end.

Definition frac_digits (n : pnum) : list digit := match p_frac n with None => [] | Some fs => fs end.
(* the number that is printed *)
Definition value_num (n : pnum) : dec :=
  let fl := Z.of_nat (List.length (frac_digits n)) in
  let e := match p_exp n with
           | None => 0%Z
           | Some (_, (eneg, _), ed) => let v := Z.of_N (N_of_digits ed) in if eneg then (- v)%Z else v
           end in
  mkDec (p_neg n) (N_of_digits (p_int n ++ frac_digits n)) (e - fl).

Definition wf_num (n : pnum) : Prop :=
  (p_int n <> [] \/ frac_digits n <> []) /\
  match p_exp n with None => True | Some (_, _, ed) => ed <> [] end.

Inductive field := FNum (n : pnum) | FFrac (a b : pnum).
Definition render_field (f : field) : str :=
  match f with FNum n => render_num n | FFrac a b => render_num a ++ "/" :: render_num b end.
Definition value_field (f : field) : value :=
  match f with FNum n => VNum (value_num n) | FFrac a b => VFrac (value_num a) (value_num b) end.
Definition wf_field (f : field) : Prop :=
  match f with
  | FNum n => wf_num n
  | FFrac a b => wf_num a /\ wf_num b /\ d_mant (value_num b) <> 0%N
  end.

Definition render_line (fs : list field) : str := concat (map (fun f => render_field f ++ ["|"]) fs).

(* "s is the printed line t up to decorations": they differ only by blanks and annotation characters *)
Definition same_up_to_decoration (s t : str) : Prop := strip s = strip t.
