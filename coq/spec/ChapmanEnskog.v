(* ChapmanEnskog.v — first-principles specification of the matrix elements of the linearised Boltzmann collision
   operator in the Sonine basis (Chapman & Cowling ch. 8-9; Devoto 1966), built from the bracket-integral tables
   (spec/BracketTables.v, generated from the generating function of DESIGN Appendix A).  Units: kT / 2 pi = 1.
   Written from the theory, independently of the code's transcription of Devoto's appendix. *)
From Coq Require Import Reals List Arith.
Import ListNotations.
From MPC Require Import Num RInst StatMech RVec RSumIdx BracketTables.
Open Scope R_scope.

(* Omega^(l)(r) = sqrt(kT / 2 pi mu) * 1/2 (r+1)! [1 - 1/2 (1 + (-1)^l)/(1 + l)] * Qbar^(l,r) *)
Fixpoint factR (n : nat) : R := match n with O => 1 | S k => INR (S k) * factR k end.     (* n! as a real *)
Definition ofac (l r : nat) : R := factR (r + 1) / 2 * (1 - (1 + (-1) ^ l) / (2 * (1 + INR l))).

Section CE.
Variables (masses nd : nat -> R) (nb : nat).
Variable Qbar : nat -> nat -> nat -> nat -> R.       (* Qbar l r i k : reduced collision integral of order (l, r) for the pair (i, k) *)

Definition A2 (i k : nat) : R := masses i / (masses i + masses k).     (* a^2 = M_i *)
Definition B2 (i k : nat) : R := masses k / (masses i + masses k).     (* b^2 = M_k *)
Definition mu (i k : nat) : R := masses i * masses k / (masses i + masses k).
Definition Wt (i k l r : nat) : R := ofac l r * Qbar l r i k / sqrt (mu i k).

Definition table := R -> R -> (nat -> nat -> R) -> R.
(* bracket integrals [.,.]_ik: 8 * sum over (l, r) of coefficient * Omega^(l)_ik(r); the unlike-molecule vector bracket carries a b *)
Definition BRv12 (t : table) (i k : nat) : R := 8 * sqrt (A2 i k * B2 i k) * t (A2 i k) (B2 i k) (Wt i k).
Definition BR (t : table) (i k : nat) : R := 8 * t (A2 i k) (B2 i k) (Wt i k).

(* Q~^{mp}_ij = sum_l n_i n_l (delta_ij [.,.]'_il + delta_jl [.,.]''_il);  q^{mp}_ij = sqrt(m_i) Q~^{mp}_ij *)
Definition q_spec (t11 t12 : table) (i j : nat) : R :=
  sqrt (masses i) * sumn nb (fun l => nd i * nd l * (dlt i j * BR t11 i l + dlt j l * BRv12 t12 i l)).
Definition qhat_spec (t11 t12 : table) (i j : nat) : R :=
  sqrt (masses i) * sumn nb (fun l => nd i * nd l * (dlt i j * BR t11 i l + dlt j l * BR t12 i l)).
(* Devoto's q^{00} replaces the (linearly dependent) diffusion equations by the mass-flux constraint: extra term *)
Definition q00_constraint (i j : nat) : R :=
  - (nd j * sqrt (masses j) *
     (8 * sumn nb (fun l => nd l * sqrt (masses l) / (sqrt (masses i) * sqrt (masses i + masses l)) * Qbar 1%nat 1%nat i l * (1 - dlt i l)))).
End CE.
