(* StatMech.v — the documented statistical-mechanics formulae, written from the
   property text and the theory documentation, independently of the code (over R). *)
From Coq Require Import Reals List.
Import ListNotations.
Open Scope R_scope.

Fixpoint Rsum (l : list R) : R := match l with [] => 0 | x :: r => x + Rsum r end.
Fixpoint Rprod (l : list R) : R := match l with [] => 1 | x :: r => x * Rprod r end.

Section Spec.
Variables (kB NA h : R).

(* translational: (2 pi m k T / h^2)^(3/2) with m = M / N_A *)
Definition Ztr_spec (M T : R) : R := Rpower (2 * PI * (M / NA) * kB * T / (h * h)) (3 / 2).

(* atoms and atomic ions: sum of (2J+1) exp(-E/kT) over exactly the listed levels
   whose energy lies below the lowered ionisation energy *)
Definition bound_levels (IE dE : R) (levels : list (R * R)) : list (R * R) :=
  filter (fun JE => if Rlt_dec (snd JE) (IE - dE) then true else false) levels.
Definition level_weight (T : R) (JE : R * R) : R := (2 * fst JE + 1) * exp (- snd JE / (kB * T)).
Definition Zint_mono_spec (IE : R) (levels : list (R * R)) (T dE : R) : R :=
  Rsum (map (level_weight T) (bound_levels IE dE levels)).

(* harmonic oscillator (zero at the bottom of the well) and rigid rotor *)
Definition Zvib_spec (w T : R) : R := exp (- w / (2 * (kB * T))) / (1 - exp (- w / (kB * T))).
Definition Zrot_linear_spec (sigma B T : R) : R := kB * T / (sigma * B).
Definition Zrot_nonlinear_spec (sigma Ae Be Ce T : R) : R :=
  sqrt PI / sigma * sqrt ((kB * T) ^ 3 / (Ae * Be * Ce)).
Definition Zint_di_spec (g w B sigma T : R) : R := g * Zvib_spec w T * Zrot_linear_spec sigma B T.
Definition Zint_poly_linear_spec (g : R) (ws : list R) (B sigma T : R) : R :=
  g * Rprod (map (fun w => Zvib_spec w T) ws) * Zrot_linear_spec sigma B T.
Definition Zint_poly_nonlinear_spec (g : R) (ws : list R) (Ae Be Ce sigma T : R) : R :=
  g * Rprod (map (fun w => Zvib_spec w T) ws) * Zrot_nonlinear_spec sigma Ae Be Ce T.

(* internal energies per particle (translational 3/2 kT included, as the code reports it) *)
Definition Umono_spec (IE : R) (levels : list (R * R)) (T dE : R) : R :=
  3 / 2 * kB * T +
  Rsum (map (fun JE => snd JE * level_weight T JE) (bound_levels IE dE levels))
  / Zint_mono_spec IE levels T dE.
End Spec.
