(* Radiation.v — the documented optically-thin line sum (written from the property text). *)
From Coq Require Import Reals List.
Import ListNotations.
From MPC Require Import StatMech.
Open Scope R_scope.

Section Spec.
Variables (kB h c : R).
Variable SP : Type.                          (* a heavy species *)
Variable Zint0 : SP -> R -> R.               (* its un-lowered internal partition function Z_int(T) *)
Variable lines : SP -> list (R * R * R).     (* (wavelength, gA, E_upper) *)

Definition line_term (T n Z : R) (ln : R * R * R) : R :=
  let '(lam, gA, E) := ln in n * gA * exp (- E / (kB * T)) / (lam * Z).
Definition species_emission (T : R) (ns : R * SP) : R :=
  Rsum (map (line_term T (fst ns) (Zint0 (snd ns) T)) (lines (snd ns))).
(* heavy : the heavy species with their number densities; electrons are not in the list *)
Definition emission_spec (T : R) (heavy : list (R * SP)) : R :=
  h * c / (4 * PI) * Rsum (map (species_emission T) heavy).
End Spec.
