
type nat =
| O
| S of nat

(** val app : 'a1 list -> 'a1 list -> 'a1 list **)

let rec app l m =
  match l with
  | [] -> m
  | a :: l1 -> a :: (app l1 m)

(** val eqb : bool -> bool -> bool **)

let eqb b1 b2 =
  if b1 then b2 else if b2 then false else true

module Nat =
 struct
  (** val eqb : nat -> nat -> bool **)

  let rec eqb n m =
    match n with
    | O -> (match m with
            | O -> true
            | S _ -> false)
    | S n' -> (match m with
               | O -> false
               | S m' -> eqb n' m')
 end

type stmt =
| ReadN
| ReadE
| WriteN
| WriteE
| SetFlag of bool
| SaveT of nat
| SetTPert of nat * bool
| SetTRestore of nat
| Call of nat
| IfValid of stmt list * stmt list
| IfParam of stmt list * stmt list

type tv =
| TBase
| TPert of tv * bool

(** val tv_eqb : tv -> tv -> bool **)

let rec tv_eqb a b =
  match a with
  | TBase -> (match b with
              | TBase -> true
              | TPert (_, _) -> false)
  | TPert (a', u) ->
    (match b with
     | TBase -> false
     | TPert (b', v) -> (&&) (tv_eqb a' b') (eqb u v))

type key =
| KAt of tv
| KOther

(** val key_current : key -> tv -> bool **)

let key_current k t =
  match k with
  | KAt t' -> tv_eqb t' t
  | KOther -> false

type st = { cT : tv; valid : bool; nk : key; ek : key }

(** val slot_get : (nat * tv) list -> nat -> tv option **)

let rec slot_get slots k =
  match slots with
  | [] -> None
  | p :: r -> let (k', t) = p in if Nat.eqb k k' then Some t else slot_get r k

(** val run :
    (nat -> stmt list) -> bool -> nat -> stmt list -> st -> bool ->
    (nat * tv) list -> ((st * bool) * (nat * tv) list) option **)

let rec run body0 dt fuel p s clean slots =
  match fuel with
  | O -> None
  | S fuel' ->
    (match p with
     | [] -> Some ((s, clean), slots)
     | i :: rest ->
       (match i with
        | ReadN ->
          run body0 dt fuel' rest s ((&&) clean (key_current s.nk s.cT)) slots
        | ReadE ->
          run body0 dt fuel' rest s ((&&) clean (key_current s.ek s.cT)) slots
        | WriteN ->
          run body0 dt fuel' rest { cT = s.cT; valid = s.valid; nk = (KAt
            s.cT); ek = s.ek } clean slots
        | WriteE ->
          run body0 dt fuel' rest { cT = s.cT; valid = s.valid; nk = s.nk;
            ek = (KAt s.cT) } clean slots
        | SetFlag b ->
          run body0 dt fuel' rest { cT = s.cT; valid = b; nk = s.nk; ek =
            s.ek } clean slots
        | SaveT k -> run body0 dt fuel' rest s clean ((k, s.cT) :: slots)
        | SetTPert (k, up) ->
          (match slot_get slots k with
           | Some t ->
             run body0 dt fuel' rest { cT = (TPert (t, up)); valid = false;
               nk = s.nk; ek = s.ek } clean slots
           | None -> None)
        | SetTRestore k ->
          (match slot_get slots k with
           | Some t ->
             run body0 dt fuel' rest { cT = t; valid = false; nk = s.nk; ek =
               s.ek } clean slots
           | None -> None)
        | Call m ->
          (match run body0 dt fuel' (body0 m) s clean [] with
           | Some p0 ->
             let (p1, _) = p0 in
             let (s', c') = p1 in run body0 dt fuel' rest s' c' slots
           | None -> None)
        | IfValid (a, b) ->
          if s.valid
          then run body0 dt fuel' a s clean slots
          else run body0 dt fuel' (app b rest) s clean slots
        | IfParam (a, b) ->
          run body0 dt fuel' (app (if dt then a else b) rest) s clean slots))

type hs = { hvalid : bool; hn : bool; he : bool }

(** val h_init : hs **)

let h_init =
  { hvalid = false; hn = false; he = false }

(** val st_of : hs -> st **)

let st_of h =
  { cT = TBase; valid = h.hvalid; nk = (if h.hn then KAt TBase else KOther);
    ek = (if h.he then KAt TBase else KOther) }

(** val hs_of : st -> hs **)

let hs_of s =
  { hvalid = s.valid; hn = (key_current s.nk TBase); he =
    (key_current s.ek TBase) }

type op =
| SetT
| SetP
| SetX0
| Calc of nat * bool

type outcome = { o_clean : bool; o_inputs_preserved : bool }

(** val fUEL : nat **)

let fUEL =
  S (S (S (S (S (S (S (S (S (S (S (S (S (S (S (S (S (S (S (S (S (S (S (S (S
    (S (S (S (S (S (S (S (S (S (S (S (S (S (S (S (S (S (S (S (S (S (S (S (S
    (S (S (S (S (S (S (S (S (S (S (S (S (S (S (S (S (S (S (S (S (S (S (S (S
    (S (S (S (S (S (S (S (S (S (S (S (S (S (S (S (S (S (S (S (S (S (S (S (S
    (S (S (S (S (S (S (S (S (S (S (S (S (S (S (S (S (S (S (S (S (S (S (S (S
    (S (S (S (S (S (S (S (S (S (S (S (S (S (S (S (S (S (S (S (S (S (S (S (S
    (S (S (S (S (S (S (S (S (S (S (S (S (S (S (S (S (S (S (S (S (S (S (S (S
    (S (S (S (S (S (S (S (S (S (S (S (S (S (S (S (S (S (S (S (S (S (S (S (S
    (S (S (S (S (S (S (S (S (S (S (S (S (S (S (S (S (S (S (S (S (S (S (S (S
    (S (S (S (S (S (S (S (S (S (S (S (S (S (S (S (S (S (S (S (S (S (S (S (S
    (S (S (S (S (S (S (S (S (S (S (S (S (S (S (S (S (S (S (S (S (S (S (S (S
    (S (S (S (S (S (S (S (S (S (S (S (S (S (S (S (S (S (S (S (S (S (S (S (S
    (S (S (S (S (S (S (S (S (S (S (S
    O)))))))))))))))))))))))))))))))))))))))))))))))))))))))))))))))))))))))))))))))))))))))))))))))))))))))))))))))))))))))))))))))))))))))))))))))))))))))))))))))))))))))))))))))))))))))))))))))))))))))))))))))))))))))))))))))))))))))))))))))))))))))))))))))))))))))))))))))))))))))))))))))))))))))))))

(** val hstep :
    (nat -> stmt list) -> hs -> op -> (hs * outcome option) option **)

let hstep body0 h = function
| Calc (m, dt) ->
  (match run body0 dt fUEL (body0 m) (st_of h) true [] with
   | Some p ->
     let (p0, _) = p in
     let (s', c) = p0 in
     Some ((hs_of s'), (Some { o_clean = c; o_inputs_preserved =
     (tv_eqb s'.cT TBase) }))
   | None -> None)
| _ -> Some ({ hvalid = false; hn = false; he = false }, None)

(** val hrun :
    (nat -> stmt list) -> hs -> op list -> (hs * outcome list) option **)

let rec hrun body0 h = function
| [] -> Some (h, [])
| o :: r ->
  (match hstep body0 h o with
   | Some p ->
     let (h', out) = p in
     (match hrun body0 h' r with
      | Some p0 ->
        let (h'', outs) = p0 in
        Some (h'', (match out with
                    | Some x -> x :: outs
                    | None -> outs))
      | None -> None)
   | None -> None)

type ascii =
| Ascii of bool * bool * bool * bool * bool * bool * bool * bool

type string =
| EmptyString
| String of ascii * string

(** val body : nat -> stmt list **)

let body = function
| O -> ReadN :: []
| S n ->
  (match n with
   | O ->
     (IfValid ((ReadN :: []), (WriteN :: ((Call
       O) :: (WriteE :: (WriteE :: (ReadN :: (ReadN :: (ReadE :: (ReadN :: (ReadE :: (ReadN :: (ReadN :: (ReadN :: (WriteN :: (ReadN :: ((SetFlag
       true) :: (ReadN :: [])))))))))))))))))) :: []
   | S n0 ->
     (match n0 with
      | O -> (Call (S O)) :: []
      | S n1 ->
        (match n1 with
         | O -> (Call (S O)) :: (ReadE :: (ReadE :: []))
         | S n2 ->
           (match n2 with
            | O ->
              (Call (S O)) :: ((Call (S (S O))) :: ((Call (S (S (S
                O)))) :: (ReadE :: (ReadE :: []))))
            | S n3 ->
              (match n3 with
               | O ->
                 (SaveT O) :: ((SetTPert (O, false)) :: ((Call (S (S (S (S
                   O))))) :: ((SetTPert (O, true)) :: ((Call (S (S (S (S
                   O))))) :: ((SetTRestore O) :: [])))))
               | S n4 ->
                 (match n4 with
                  | O ->
                    (Call (S (S (S (S (S (S (S (S (S (S (S (S (S (S (S
                      O)))))))))))))))) :: []
                  | S n5 ->
                    (match n5 with
                     | O ->
                       (Call (S (S (S (S (S (S (S (S (S (S (S (S (S (S (S (S
                         (S O)))))))))))))))))) :: []
                     | S n6 ->
                       (match n6 with
                        | O ->
                          (Call (S (S (S (S (S (S (S (S (S (S (S (S (S (S (S
                            (S O))))))))))))))))) :: []
                        | S n7 ->
                          (match n7 with
                           | O ->
                             (Call (S (S (S (S (S (S (S (S (S (S (S (S (S (S
                               (S (S (S (S O))))))))))))))))))) :: []
                           | S n8 ->
                             (match n8 with
                              | O -> (Call (S O)) :: []
                              | S n9 ->
                                (match n9 with
                                 | O ->
                                   (Call (S O)) :: ((Call (S (S (S (S (S (S
                                     (S (S (S (S O))))))))))) :: ((Call (S (S
                                     (S (S (S (S (S (S (S (S
                                     O))))))))))) :: ((Call (S (S (S (S (S (S
                                     (S (S (S (S O))))))))))) :: ((Call (S (S
                                     (S (S (S (S (S (S (S (S
                                     O))))))))))) :: ((Call (S (S (S (S (S (S
                                     (S (S (S (S O))))))))))) :: ((Call (S (S
                                     (S (S (S (S (S (S (S (S
                                     O))))))))))) :: ((Call (S (S (S (S (S (S
                                     (S (S (S (S O))))))))))) :: ((Call (S (S
                                     (S (S (S (S (S (S (S (S
                                     O))))))))))) :: ((Call (S (S (S (S (S (S
                                     (S (S (S (S O))))))))))) :: ((Call (S (S
                                     (S (S (S (S (S (S (S (S
                                     O))))))))))) :: ((Call (S (S (S (S (S (S
                                     (S (S (S (S O))))))))))) :: ((Call (S (S
                                     (S (S (S (S (S (S (S (S
                                     O))))))))))) :: ((Call (S (S (S (S (S (S
                                     (S (S (S (S O))))))))))) :: ((Call (S (S
                                     (S (S (S (S (S (S (S (S
                                     O))))))))))) :: ((Call (S (S (S (S (S (S
                                     (S (S (S (S O))))))))))) :: ((Call (S (S
                                     (S (S (S (S (S (S (S (S
                                     O))))))))))) :: []))))))))))))))))
                                 | S n10 ->
                                   (match n10 with
                                    | O ->
                                      (Call (S O)) :: ((Call (S (S (S (S (S
                                        (S (S (S (S (S O))))))))))) :: ((Call
                                        (S (S (S (S (S (S (S (S (S (S
                                        O))))))))))) :: ((Call (S (S (S (S (S
                                        (S (S (S (S (S O))))))))))) :: ((Call
                                        (S (S (S (S (S (S (S (S (S (S
                                        O))))))))))) :: ((Call (S (S (S (S (S
                                        (S (S (S (S (S O))))))))))) :: ((Call
                                        (S (S (S (S (S (S (S (S (S (S
                                        O))))))))))) :: ((Call (S (S (S (S (S
                                        (S (S (S (S (S
                                        O))))))))))) :: [])))))))
                                    | S n11 ->
                                      (match n11 with
                                       | O ->
                                         (Call (S O)) :: ((Call (S (S
                                           O))) :: ((Call (S (S (S (S (S (S
                                           (S (S (S (S (S
                                           O)))))))))))) :: []))
                                       | S n12 ->
                                         (match n12 with
                                          | O ->
                                            (Call (S O)) :: ((Call (S (S (S
                                              (S (S (S (S (S (S (S (S
                                              O)))))))))))) :: [])
                                          | S n13 ->
                                            (match n13 with
                                             | O ->
                                               (Call (S O)) :: ((Call (S (S
                                                 (S (S (S (S (S (S (S (S (S
                                                 (S O))))))))))))) :: [])
                                             | S n14 ->
                                               (match n14 with
                                                | O ->
                                                  (Call (S O)) :: ((Call (S
                                                    (S O))) :: ((Call (S (S
                                                    (S (S (S (S (S (S (S (S
                                                    (S (S (S
                                                    O)))))))))))))) :: []))
                                                | S n15 ->
                                                  (match n15 with
                                                   | O ->
                                                     (Call (S O)) :: ((Call
                                                       (S (S O))) :: ((Call
                                                       (S (S (S
                                                       O)))) :: ((Call (S (S
                                                       (S (S (S (S (S (S (S
                                                       (S (S
                                                       O)))))))))))) :: ((IfParam
                                                       (((Call (S (S (S (S (S
                                                       (S (S (S (S (S (S (S
                                                       (S (S
                                                       O))))))))))))))) :: []),
                                                       [])) :: ((SaveT
                                                       O) :: ((SetTPert (O,
                                                       true)) :: ((Call (S
                                                       O)) :: ((SetTPert (O,
                                                       false)) :: ((Call (S
                                                       O)) :: ((SetTRestore
                                                       O) :: ((Call (S (S (S
                                                       (S (S (S (S (S (S (S
                                                       (S (S (S
                                                       O)))))))))))))) :: [])))))))))))
                                                   | S n16 ->
                                                     (match n16 with
                                                      | O ->
                                                        (Call (S O)) :: []
                                                      | S _ -> []))))))))))))))))))

(** val public_methods : nat list **)

let public_methods =
  (S O) :: ((S (S O)) :: ((S (S (S O))) :: ((S (S (S (S O)))) :: ((S (S (S (S
    (S O))))) :: ((S (S (S (S (S (S O)))))) :: ((S (S (S (S (S (S (S
    O))))))) :: ((S (S (S (S (S (S (S (S O)))))))) :: ((S (S (S (S (S (S (S
    (S (S O))))))))) :: []))))))))

(** val method_names : (nat * string) list **)

let method_names =
  (O, (String ((Ascii (true, true, true, true, true, false, true, false)),
    (String ((Ascii (true, true, true, true, true, false, true, false)),
    (String ((Ascii (true, true, true, false, false, true, true, false)),
    (String ((Ascii (true, false, true, false, false, true, true, false)),
    (String ((Ascii (false, false, true, false, true, true, true, false)),
    (String ((Ascii (true, true, true, true, true, false, true, false)),
    (String ((Ascii (false, true, false, false, true, true, true, false)),
    (String ((Ascii (true, false, true, false, false, true, true, false)),
    (String ((Ascii (false, true, true, false, false, true, true, false)),
    (String ((Ascii (true, false, true, false, false, true, true, false)),
    (String ((Ascii (false, true, false, false, true, true, true, false)),
    (String ((Ascii (true, false, true, false, false, true, true, false)),
    (String ((Ascii (false, true, true, true, false, true, true, false)),
    (String ((Ascii (true, true, false, false, false, true, true, false)),
    (String ((Ascii (true, false, true, false, false, true, true, false)),
    (String ((Ascii (true, true, true, true, true, false, true, false)),
    (String ((Ascii (true, false, true, false, false, true, true, false)),
    (String ((Ascii (false, true, true, true, false, true, true, false)),
    (String ((Ascii (true, false, true, false, false, true, true, false)),
    (String ((Ascii (false, true, false, false, true, true, true, false)),
    (String ((Ascii (true, true, true, false, false, true, true, false)),
    (String ((Ascii (true, false, false, true, false, true, true, false)),
    (String ((Ascii (true, false, true, false, false, true, true, false)),
    (String ((Ascii (true, true, false, false, true, true, true, false)),
    EmptyString))))))))))))))))))))))))))))))))))))))))))))))))) :: (((S O),
    (String ((Ascii (true, true, false, false, false, true, true, false)),
    (String ((Ascii (true, false, false, false, false, true, true, false)),
    (String ((Ascii (false, false, true, true, false, true, true, false)),
    (String ((Ascii (true, true, false, false, false, true, true, false)),
    (String ((Ascii (true, false, true, false, true, true, true, false)),
    (String ((Ascii (false, false, true, true, false, true, true, false)),
    (String ((Ascii (true, false, false, false, false, true, true, false)),
    (String ((Ascii (false, false, true, false, true, true, true, false)),
    (String ((Ascii (true, false, true, false, false, true, true, false)),
    (String ((Ascii (true, true, true, true, true, false, true, false)),
    (String ((Ascii (true, true, false, false, false, true, true, false)),
    (String ((Ascii (true, true, true, true, false, true, true, false)),
    (String ((Ascii (true, false, true, true, false, true, true, false)),
    (String ((Ascii (false, false, false, false, true, true, true, false)),
    (String ((Ascii (true, true, true, true, false, true, true, false)),
    (String ((Ascii (true, true, false, false, true, true, true, false)),
    (String ((Ascii (true, false, false, true, false, true, true, false)),
    (String ((Ascii (false, false, true, false, true, true, true, false)),
    (String ((Ascii (true, false, false, true, false, true, true, false)),
    (String ((Ascii (true, true, true, true, false, true, true, false)),
    (String ((Ascii (false, true, true, true, false, true, true, false)),
    EmptyString))))))))))))))))))))))))))))))))))))))))))) :: (((S (S O)),
    (String ((Ascii (true, true, false, false, false, true, true, false)),
    (String ((Ascii (true, false, false, false, false, true, true, false)),
    (String ((Ascii (false, false, true, true, false, true, true, false)),
    (String ((Ascii (true, true, false, false, false, true, true, false)),
    (String ((Ascii (true, false, true, false, true, true, true, false)),
    (String ((Ascii (false, false, true, true, false, true, true, false)),
    (String ((Ascii (true, false, false, false, false, true, true, false)),
    (String ((Ascii (false, false, true, false, true, true, true, false)),
    (String ((Ascii (true, false, true, false, false, true, true, false)),
    (String ((Ascii (true, true, true, true, true, false, true, false)),
    (String ((Ascii (false, false, true, false, false, true, true, false)),
    (String ((Ascii (true, false, true, false, false, true, true, false)),
    (String ((Ascii (false, true, true, true, false, true, true, false)),
    (String ((Ascii (true, true, false, false, true, true, true, false)),
    (String ((Ascii (true, false, false, true, false, true, true, false)),
    (String ((Ascii (false, false, true, false, true, true, true, false)),
    (String ((Ascii (true, false, false, true, true, true, true, false)),
    EmptyString))))))))))))))))))))))))))))))))))) :: (((S (S (S O))),
    (String ((Ascii (true, true, false, false, false, true, true, false)),
    (String ((Ascii (true, false, false, false, false, true, true, false)),
    (String ((Ascii (false, false, true, true, false, true, true, false)),
    (String ((Ascii (true, true, false, false, false, true, true, false)),
    (String ((Ascii (true, false, true, false, true, true, true, false)),
    (String ((Ascii (false, false, true, true, false, true, true, false)),
    (String ((Ascii (true, false, false, false, false, true, true, false)),
    (String ((Ascii (false, false, true, false, true, true, true, false)),
    (String ((Ascii (true, false, true, false, false, true, true, false)),
    (String ((Ascii (true, true, true, true, true, false, true, false)),
    (String ((Ascii (true, true, false, false, true, true, true, false)),
    (String ((Ascii (false, false, false, false, true, true, true, false)),
    (String ((Ascii (true, false, true, false, false, true, true, false)),
    (String ((Ascii (true, true, false, false, false, true, true, false)),
    (String ((Ascii (true, false, false, true, false, true, true, false)),
    (String ((Ascii (true, false, true, false, false, true, true, false)),
    (String ((Ascii (true, true, false, false, true, true, true, false)),
    (String ((Ascii (true, true, true, true, true, false, true, false)),
    (String ((Ascii (true, false, true, false, false, true, true, false)),
    (String ((Ascii (false, true, true, true, false, true, true, false)),
    (String ((Ascii (false, false, true, false, true, true, true, false)),
    (String ((Ascii (false, false, false, true, false, true, true, false)),
    (String ((Ascii (true, false, false, false, false, true, true, false)),
    (String ((Ascii (false, false, true, true, false, true, true, false)),
    (String ((Ascii (false, false, false, false, true, true, true, false)),
    (String ((Ascii (true, false, false, true, false, true, true, false)),
    (String ((Ascii (true, false, true, false, false, true, true, false)),
    (String ((Ascii (true, true, false, false, true, true, true, false)),
    EmptyString))))))))))))))))))))))))))))))))))))))))))))))))))))))))) :: (((S
    (S (S (S O)))), (String ((Ascii (true, true, false, false, false, true,
    true, false)), (String ((Ascii (true, false, false, false, false, true,
    true, false)), (String ((Ascii (false, false, true, true, false, true,
    true, false)), (String ((Ascii (true, true, false, false, false, true,
    true, false)), (String ((Ascii (true, false, true, false, true, true,
    true, false)), (String ((Ascii (false, false, true, true, false, true,
    true, false)), (String ((Ascii (true, false, false, false, false, true,
    true, false)), (String ((Ascii (false, false, true, false, true, true,
    true, false)), (String ((Ascii (true, false, true, false, false, true,
    true, false)), (String ((Ascii (true, true, true, true, true, false,
    true, false)), (String ((Ascii (true, false, true, false, false, true,
    true, false)), (String ((Ascii (false, true, true, true, false, true,
    true, false)), (String ((Ascii (false, false, true, false, true, true,
    true, false)), (String ((Ascii (false, false, false, true, false, true,
    true, false)), (String ((Ascii (true, false, false, false, false, true,
    true, false)), (String ((Ascii (false, false, true, true, false, true,
    true, false)), (String ((Ascii (false, false, false, false, true, true,
    true, false)), (String ((Ascii (true, false, false, true, true, true,
    true, false)), EmptyString))))))))))))))))))))))))))))))))))))) :: (((S
    (S (S (S (S O))))), (String ((Ascii (true, true, false, false, false,
    true, true, false)), (String ((Ascii (true, false, false, false, false,
    true, true, false)), (String ((Ascii (false, false, true, true, false,
    true, true, false)), (String ((Ascii (true, true, false, false, false,
    true, true, false)), (String ((Ascii (true, false, true, false, true,
    true, true, false)), (String ((Ascii (false, false, true, true, false,
    true, true, false)), (String ((Ascii (true, false, false, false, false,
    true, true, false)), (String ((Ascii (false, false, true, false, true,
    true, true, false)), (String ((Ascii (true, false, true, false, false,
    true, true, false)), (String ((Ascii (true, true, true, true, true,
    false, true, false)), (String ((Ascii (false, false, false, true, false,
    true, true, false)), (String ((Ascii (true, false, true, false, false,
    true, true, false)), (String ((Ascii (true, false, false, false, false,
    true, true, false)), (String ((Ascii (false, false, true, false, true,
    true, true, false)), (String ((Ascii (true, true, true, true, true,
    false, true, false)), (String ((Ascii (true, true, false, false, false,
    true, true, false)), (String ((Ascii (true, false, false, false, false,
    true, true, false)), (String ((Ascii (false, false, false, false, true,
    true, true, false)), (String ((Ascii (true, false, false, false, false,
    true, true, false)), (String ((Ascii (true, true, false, false, false,
    true, true, false)), (String ((Ascii (true, false, false, true, false,
    true, true, false)), (String ((Ascii (false, false, true, false, true,
    true, true, false)), (String ((Ascii (true, false, false, true, true,
    true, true, false)),
    EmptyString))))))))))))))))))))))))))))))))))))))))))))))) :: (((S (S (S
    (S (S (S O)))))), (String ((Ascii (true, true, false, false, false, true,
    true, false)), (String ((Ascii (true, false, false, false, false, true,
    true, false)), (String ((Ascii (false, false, true, true, false, true,
    true, false)), (String ((Ascii (true, true, false, false, false, true,
    true, false)), (String ((Ascii (true, false, true, false, true, true,
    true, false)), (String ((Ascii (false, false, true, true, false, true,
    true, false)), (String ((Ascii (true, false, false, false, false, true,
    true, false)), (String ((Ascii (false, false, true, false, true, true,
    true, false)), (String ((Ascii (true, false, true, false, false, true,
    true, false)), (String ((Ascii (true, true, true, true, true, false,
    true, false)), (String ((Ascii (false, true, true, false, true, true,
    true, false)), (String ((Ascii (true, false, false, true, false, true,
    true, false)), (String ((Ascii (true, true, false, false, true, true,
    true, false)), (String ((Ascii (true, true, false, false, false, true,
    true, false)), (String ((Ascii (true, true, true, true, false, true,
    true, false)), (String ((Ascii (true, true, false, false, true, true,
    true, false)), (String ((Ascii (true, false, false, true, false, true,
    true, false)), (String ((Ascii (false, false, true, false, true, true,
    true, false)), (String ((Ascii (true, false, false, true, true, true,
    true, false)), EmptyString))))))))))))))))))))))))))))))))))))))) :: (((S
    (S (S (S (S (S (S O))))))), (String ((Ascii (true, true, false, false,
    false, true, true, false)), (String ((Ascii (true, false, false, false,
    false, true, true, false)), (String ((Ascii (false, false, true, true,
    false, true, true, false)), (String ((Ascii (true, true, false, false,
    false, true, true, false)), (String ((Ascii (true, false, true, false,
    true, true, true, false)), (String ((Ascii (false, false, true, true,
    false, true, true, false)), (String ((Ascii (true, false, false, false,
    false, true, true, false)), (String ((Ascii (false, false, true, false,
    true, true, true, false)), (String ((Ascii (true, false, true, false,
    false, true, true, false)), (String ((Ascii (true, true, true, true,
    true, false, true, false)), (String ((Ascii (false, false, true, false,
    true, true, true, false)), (String ((Ascii (false, false, false, true,
    false, true, true, false)), (String ((Ascii (true, false, true, false,
    false, true, true, false)), (String ((Ascii (false, true, false, false,
    true, true, true, false)), (String ((Ascii (true, false, true, true,
    false, true, true, false)), (String ((Ascii (true, false, false, false,
    false, true, true, false)), (String ((Ascii (false, false, true, true,
    false, true, true, false)), (String ((Ascii (true, true, true, true,
    true, false, true, false)), (String ((Ascii (true, true, false, false,
    false, true, true, false)), (String ((Ascii (true, true, true, true,
    false, true, true, false)), (String ((Ascii (false, true, true, true,
    false, true, true, false)), (String ((Ascii (false, false, true, false,
    false, true, true, false)), (String ((Ascii (true, false, true, false,
    true, true, true, false)), (String ((Ascii (true, true, false, false,
    false, true, true, false)), (String ((Ascii (false, false, true, false,
    true, true, true, false)), (String ((Ascii (true, false, false, true,
    false, true, true, false)), (String ((Ascii (false, true, true, false,
    true, true, true, false)), (String ((Ascii (true, false, false, true,
    false, true, true, false)), (String ((Ascii (false, false, true, false,
    true, true, true, false)), (String ((Ascii (true, false, false, true,
    true, true, true, false)),
    EmptyString))))))))))))))))))))))))))))))))))))))))))))))))))))))))))))) :: (((S
    (S (S (S (S (S (S (S O)))))))), (String ((Ascii (true, true, false,
    false, false, true, true, false)), (String ((Ascii (true, false, false,
    false, false, true, true, false)), (String ((Ascii (false, false, true,
    true, false, true, true, false)), (String ((Ascii (true, true, false,
    false, false, true, true, false)), (String ((Ascii (true, false, true,
    false, true, true, true, false)), (String ((Ascii (false, false, true,
    true, false, true, true, false)), (String ((Ascii (true, false, false,
    false, false, true, true, false)), (String ((Ascii (false, false, true,
    false, true, true, true, false)), (String ((Ascii (true, false, true,
    false, false, true, true, false)), (String ((Ascii (true, true, true,
    true, true, false, true, false)), (String ((Ascii (true, false, true,
    false, false, true, true, false)), (String ((Ascii (false, false, true,
    true, false, true, true, false)), (String ((Ascii (true, false, true,
    false, false, true, true, false)), (String ((Ascii (true, true, false,
    false, false, true, true, false)), (String ((Ascii (false, false, true,
    false, true, true, true, false)), (String ((Ascii (false, true, false,
    false, true, true, true, false)), (String ((Ascii (true, false, false,
    true, false, true, true, false)), (String ((Ascii (true, true, false,
    false, false, true, true, false)), (String ((Ascii (true, false, false,
    false, false, true, true, false)), (String ((Ascii (false, false, true,
    true, false, true, true, false)), (String ((Ascii (true, true, true,
    true, true, false, true, false)), (String ((Ascii (true, true, false,
    false, false, true, true, false)), (String ((Ascii (true, true, true,
    true, false, true, true, false)), (String ((Ascii (false, true, true,
    true, false, true, true, false)), (String ((Ascii (false, false, true,
    false, false, true, true, false)), (String ((Ascii (true, false, true,
    false, true, true, true, false)), (String ((Ascii (true, true, false,
    false, false, true, true, false)), (String ((Ascii (false, false, true,
    false, true, true, true, false)), (String ((Ascii (true, false, false,
    true, false, true, true, false)), (String ((Ascii (false, true, true,
    false, true, true, true, false)), (String ((Ascii (true, false, false,
    true, false, true, true, false)), (String ((Ascii (false, false, true,
    false, true, true, true, false)), (String ((Ascii (true, false, false,
    true, true, true, true, false)),
    EmptyString))))))))))))))))))))))))))))))))))))))))))))))))))))))))))))))))))) :: (((S
    (S (S (S (S (S (S (S (S O))))))))), (String ((Ascii (true, true, false,
    false, false, true, true, false)), (String ((Ascii (true, false, false,
    false, false, true, true, false)), (String ((Ascii (false, false, true,
    true, false, true, true, false)), (String ((Ascii (true, true, false,
    false, false, true, true, false)), (String ((Ascii (true, false, true,
    false, true, true, true, false)), (String ((Ascii (false, false, true,
    true, false, true, true, false)), (String ((Ascii (true, false, false,
    false, false, true, true, false)), (String ((Ascii (false, false, true,
    false, true, true, true, false)), (String ((Ascii (true, false, true,
    false, false, true, true, false)), (String ((Ascii (true, true, true,
    true, true, false, true, false)), (String ((Ascii (false, false, true,
    false, true, true, true, false)), (String ((Ascii (true, true, true,
    true, false, true, true, false)), (String ((Ascii (false, false, true,
    false, true, true, true, false)), (String ((Ascii (true, false, false,
    false, false, true, true, false)), (String ((Ascii (false, false, true,
    true, false, true, true, false)), (String ((Ascii (true, true, true,
    true, true, false, true, false)), (String ((Ascii (true, false, true,
    false, false, true, true, false)), (String ((Ascii (true, false, true,
    true, false, true, true, false)), (String ((Ascii (true, false, false,
    true, false, true, true, false)), (String ((Ascii (true, true, false,
    false, true, true, true, false)), (String ((Ascii (true, true, false,
    false, true, true, true, false)), (String ((Ascii (true, false, false,
    true, false, true, true, false)), (String ((Ascii (true, true, true,
    true, false, true, true, false)), (String ((Ascii (false, true, true,
    true, false, true, true, false)), (String ((Ascii (true, true, true,
    true, true, false, true, false)), (String ((Ascii (true, true, false,
    false, false, true, true, false)), (String ((Ascii (true, true, true,
    true, false, true, true, false)), (String ((Ascii (true, false, true,
    false, false, true, true, false)), (String ((Ascii (false, true, true,
    false, false, true, true, false)), (String ((Ascii (false, true, true,
    false, false, true, true, false)), (String ((Ascii (true, false, false,
    true, false, true, true, false)), (String ((Ascii (true, true, false,
    false, false, true, true, false)), (String ((Ascii (true, false, false,
    true, false, true, true, false)), (String ((Ascii (true, false, true,
    false, false, true, true, false)), (String ((Ascii (false, true, true,
    true, false, true, true, false)), (String ((Ascii (false, false, true,
    false, true, true, true, false)),
    EmptyString))))))))))))))))))))))))))))))))))))))))))))))))))))))))))))))))))))))))) :: (((S
    (S (S (S (S (S (S (S (S (S O)))))))))), (String ((Ascii (false, true,
    true, false, false, true, true, false)), (String ((Ascii (false, false,
    true, false, true, true, true, false)), (String ((Ascii (true, true,
    true, true, true, false, true, false)), (String ((Ascii (true, false,
    false, false, true, false, true, false)), (String ((Ascii (true, false,
    false, true, false, true, true, false)), (String ((Ascii (false, true,
    false, true, false, true, true, false)), (String ((Ascii (true, true,
    true, true, true, false, true, false)), (String ((Ascii (true, false,
    true, true, false, true, true, false)), (String ((Ascii (true, false,
    false, true, false, true, true, false)), (String ((Ascii (false, false,
    false, true, true, true, true, false)),
    EmptyString))))))))))))))))))))) :: (((S (S (S (S (S (S (S (S (S (S (S
    O))))))))))), (String ((Ascii (false, true, true, false, false, true,
    true, false)), (String ((Ascii (false, false, true, false, true, true,
    true, false)), (String ((Ascii (true, true, true, true, true, false,
    true, false)), (String ((Ascii (true, false, false, false, true, true,
    true, false)), EmptyString))))))))) :: (((S (S (S (S (S (S (S (S (S (S (S
    (S O)))))))))))), (String ((Ascii (false, true, true, false, false, true,
    true, false)), (String ((Ascii (false, false, true, false, true, true,
    true, false)), (String ((Ascii (true, true, true, true, true, false,
    true, false)), (String ((Ascii (true, false, false, false, true, true,
    true, false)), (String ((Ascii (false, false, false, true, false, true,
    true, false)), (String ((Ascii (true, false, false, false, false, true,
    true, false)), (String ((Ascii (false, false, true, false, true, true,
    true, false)), EmptyString))))))))))))))) :: (((S (S (S (S (S (S (S (S (S
    (S (S (S (S O))))))))))))), (String ((Ascii (false, true, true, false,
    false, true, true, false)), (String ((Ascii (false, false, true, false,
    true, true, true, false)), (String ((Ascii (true, true, true, true, true,
    false, true, false)), (String ((Ascii (false, false, true, false, false,
    false, true, false)), (String ((Ascii (true, false, false, true, false,
    true, true, false)), (String ((Ascii (false, true, false, true, false,
    true, true, false)), EmptyString))))))))))))) :: (((S (S (S (S (S (S (S
    (S (S (S (S (S (S (S O)))))))))))))), (String ((Ascii (false, true, true,
    false, false, true, true, false)), (String ((Ascii (false, false, true,
    false, true, true, true, false)), (String ((Ascii (true, true, true,
    true, true, false, true, false)), (String ((Ascii (false, false, true,
    false, false, false, true, false)), (String ((Ascii (false, false, true,
    false, true, false, true, false)), (String ((Ascii (true, false, false,
    true, false, true, true, false)), EmptyString))))))))))))) :: (((S (S (S
    (S (S (S (S (S (S (S (S (S (S (S (S O))))))))))))))), (String ((Ascii
    (false, true, true, false, false, true, true, false)), (String ((Ascii
    (false, false, true, false, true, true, true, false)), (String ((Ascii
    (true, true, true, true, true, false, true, false)), (String ((Ascii
    (false, true, true, false, true, true, true, false)), (String ((Ascii
    (true, false, false, true, false, true, true, false)), (String ((Ascii
    (true, true, false, false, true, true, true, false)), (String ((Ascii
    (true, true, false, false, false, true, true, false)), (String ((Ascii
    (true, true, true, true, false, true, true, false)), (String ((Ascii
    (true, true, false, false, true, true, true, false)), (String ((Ascii
    (true, false, false, true, false, true, true, false)), (String ((Ascii
    (false, false, true, false, true, true, true, false)), (String ((Ascii
    (true, false, false, true, true, true, true, false)),
    EmptyString))))))))))))))))))))))))) :: (((S (S (S (S (S (S (S (S (S (S
    (S (S (S (S (S (S O)))))))))))))))), (String ((Ascii (false, true, true,
    false, false, true, true, false)), (String ((Ascii (false, false, true,
    false, true, true, true, false)), (String ((Ascii (true, true, true,
    true, true, false, true, false)), (String ((Ascii (true, false, true,
    false, false, true, true, false)), (String ((Ascii (false, false, true,
    true, false, true, true, false)), (String ((Ascii (true, false, true,
    false, false, true, true, false)), (String ((Ascii (true, true, false,
    false, false, true, true, false)), (String ((Ascii (false, false, true,
    false, true, true, true, false)), (String ((Ascii (false, true, false,
    false, true, true, true, false)), (String ((Ascii (true, false, false,
    true, false, true, true, false)), (String ((Ascii (true, true, false,
    false, false, true, true, false)), (String ((Ascii (true, false, false,
    false, false, true, true, false)), (String ((Ascii (false, false, true,
    true, false, true, true, false)), (String ((Ascii (true, true, true,
    true, true, false, true, false)), (String ((Ascii (true, true, false,
    false, false, true, true, false)), (String ((Ascii (true, true, true,
    true, false, true, true, false)), (String ((Ascii (false, true, true,
    true, false, true, true, false)), (String ((Ascii (false, false, true,
    false, false, true, true, false)), (String ((Ascii (true, false, true,
    false, true, true, true, false)), (String ((Ascii (true, true, false,
    false, false, true, true, false)), (String ((Ascii (false, false, true,
    false, true, true, true, false)), (String ((Ascii (true, false, false,
    true, false, true, true, false)), (String ((Ascii (false, true, true,
    false, true, true, true, false)), (String ((Ascii (true, false, false,
    true, false, true, true, false)), (String ((Ascii (false, false, true,
    false, true, true, true, false)), (String ((Ascii (true, false, false,
    true, true, true, true, false)),
    EmptyString))))))))))))))))))))))))))))))))))))))))))))))))))))) :: (((S
    (S (S (S (S (S (S (S (S (S (S (S (S (S (S (S (S O))))))))))))))))),
    (String ((Ascii (false, true, true, false, false, true, true, false)),
    (String ((Ascii (false, false, true, false, true, true, true, false)),
    (String ((Ascii (true, true, true, true, true, false, true, false)),
    (String ((Ascii (false, false, true, false, true, true, true, false)),
    (String ((Ascii (false, false, false, true, false, true, true, false)),
    (String ((Ascii (true, false, true, false, false, true, true, false)),
    (String ((Ascii (false, true, false, false, true, true, true, false)),
    (String ((Ascii (true, false, true, true, false, true, true, false)),
    (String ((Ascii (true, false, false, false, false, true, true, false)),
    (String ((Ascii (false, false, true, true, false, true, true, false)),
    (String ((Ascii (true, true, true, true, true, false, true, false)),
    (String ((Ascii (true, true, false, false, false, true, true, false)),
    (String ((Ascii (true, true, true, true, false, true, true, false)),
    (String ((Ascii (false, true, true, true, false, true, true, false)),
    (String ((Ascii (false, false, true, false, false, true, true, false)),
    (String ((Ascii (true, false, true, false, true, true, true, false)),
    (String ((Ascii (true, true, false, false, false, true, true, false)),
    (String ((Ascii (false, false, true, false, true, true, true, false)),
    (String ((Ascii (true, false, false, true, false, true, true, false)),
    (String ((Ascii (false, true, true, false, true, true, true, false)),
    (String ((Ascii (true, false, false, true, false, true, true, false)),
    (String ((Ascii (false, false, true, false, true, true, true, false)),
    (String ((Ascii (true, false, false, true, true, true, true, false)),
    EmptyString))))))))))))))))))))))))))))))))))))))))))))))) :: (((S (S (S
    (S (S (S (S (S (S (S (S (S (S (S (S (S (S (S O)))))))))))))))))), (String
    ((Ascii (false, true, true, false, false, true, true, false)), (String
    ((Ascii (false, true, false, false, true, true, true, false)), (String
    ((Ascii (true, true, true, true, true, false, true, false)), (String
    ((Ascii (false, false, true, false, true, true, true, false)), (String
    ((Ascii (true, true, true, true, false, true, true, false)), (String
    ((Ascii (false, false, true, false, true, true, true, false)), (String
    ((Ascii (true, false, false, false, false, true, true, false)), (String
    ((Ascii (false, false, true, true, false, true, true, false)), (String
    ((Ascii (true, true, true, true, true, false, true, false)), (String
    ((Ascii (true, false, true, false, false, true, true, false)), (String
    ((Ascii (true, false, true, true, false, true, true, false)), (String
    ((Ascii (true, false, false, true, false, true, true, false)), (String
    ((Ascii (true, true, false, false, true, true, true, false)), (String
    ((Ascii (true, true, false, false, true, true, true, false)), (String
    ((Ascii (true, false, false, true, false, true, true, false)), (String
    ((Ascii (true, true, true, true, false, true, true, false)), (String
    ((Ascii (false, true, true, true, false, true, true, false)), (String
    ((Ascii (true, true, true, true, true, false, true, false)), (String
    ((Ascii (true, true, false, false, false, true, true, false)), (String
    ((Ascii (true, true, true, true, false, true, true, false)), (String
    ((Ascii (true, false, true, false, false, true, true, false)), (String
    ((Ascii (false, true, true, false, false, true, true, false)), (String
    ((Ascii (false, true, true, false, false, true, true, false)), (String
    ((Ascii (true, false, false, true, false, true, true, false)), (String
    ((Ascii (true, true, false, false, false, true, true, false)), (String
    ((Ascii (true, false, false, true, false, true, true, false)), (String
    ((Ascii (true, false, true, false, false, true, true, false)), (String
    ((Ascii (false, true, true, true, false, true, true, false)), (String
    ((Ascii (false, false, true, false, true, true, true, false)),
    EmptyString))))))))))))))))))))))))))))))))))))))))))))))))))))))))))) :: []))))))))))))))))))

(** val hrun_gen : hs -> op list -> (hs * outcome list) option **)

let hrun_gen =
  hrun body

(** val hstep_gen : hs -> op -> (hs * outcome option) option **)

let hstep_gen =
  hstep body
