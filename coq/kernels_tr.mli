
val negb : bool -> bool

type nat =
| O
| S of nat

val fst : ('a1 * 'a2) -> 'a1

val snd : ('a1 * 'a2) -> 'a2

type comparison =
| Eq
| Lt
| Gt

val compOpp : comparison -> comparison

val add : nat -> nat -> nat

val sub : nat -> nat -> nat

type positive =
| XI of positive
| XO of positive
| XH

type z =
| Z0
| Zpos of positive
| Zneg of positive

module Nat :
 sig
  val sub : nat -> nat -> nat

  val eqb : nat -> nat -> bool

  val divmod : nat -> nat -> nat -> nat -> nat * nat

  val div : nat -> nat -> nat

  val modulo : nat -> nat -> nat
 end

module Pos :
 sig
  val succ : positive -> positive

  val add : positive -> positive -> positive

  val add_carry : positive -> positive -> positive

  val pred_double : positive -> positive

  val mul : positive -> positive -> positive

  val iter : ('a1 -> 'a1) -> 'a1 -> positive -> 'a1

  val compare_cont : comparison -> positive -> positive -> comparison

  val compare : positive -> positive -> comparison

  val eqb : positive -> positive -> bool

  val iter_op : ('a1 -> 'a1 -> 'a1) -> positive -> 'a1 -> 'a1

  val to_nat : positive -> nat

  val of_succ_nat : nat -> positive
 end

module Z :
 sig
  val double : z -> z

  val succ_double : z -> z

  val pred_double : z -> z

  val pos_sub : positive -> positive -> z

  val add : z -> z -> z

  val opp : z -> z

  val sub : z -> z -> z

  val mul : z -> z -> z

  val pow_pos : z -> positive -> z

  val pow : z -> z -> z

  val compare : z -> z -> comparison

  val leb : z -> z -> bool

  val ltb : z -> z -> bool

  val eqb : z -> z -> bool

  val abs : z -> z

  val to_nat : z -> nat

  val of_nat : nat -> z

  val pos_div_eucl : positive -> z -> z * z

  val div_eucl : z -> z -> z * z

  val modulo : z -> z -> z
 end

val nth : nat -> 'a1 list -> 'a1 -> 'a1

val map : ('a1 -> 'a2) -> 'a1 list -> 'a2 list

val fold_left : ('a1 -> 'a2 -> 'a1) -> 'a2 list -> 'a1 -> 'a1

val seq : nat -> nat -> nat list

type 'a num = { nadd : ('a -> 'a -> 'a); nsub : ('a -> 'a -> 'a);
                nmul : ('a -> 'a -> 'a); ndiv : ('a -> 'a -> 'a);
                nopp : ('a -> 'a); nabs : ('a -> 'a); nexp : ('a -> 'a);
                nln : ('a -> 'a); nsqrt : ('a -> 'a); ntanh : ('a -> 'a);
                nrpow : ('a -> 'a -> 'a); npow : ('a -> nat -> 'a);
                ngamma : ('a -> 'a); nofZ : (z -> 'a); npi : 'a;
                nltb : ('a -> 'a -> bool); nleb : ('a -> 'a -> bool);
                neqb : ('a -> 'a -> bool) }

type 'a units = { k_b : 'a; n_a : 'a; h_pl : 'a; hbar : 'a; c_light : 
                  'a; e_ch : 'a; m_e : 'a; epsilon_0 : 'a; r_gas : 'a;
                  k_to_eV : 'a; j_to_eV : 'a; ke_c : 'a; egamma : 'a }

val sum_left : 'a1 num -> 'a1 list -> 'a1

val delta : 'a1 num -> nat -> nat -> 'a1

type skind =
| KMono
| KDi
| KPoly
| KElectron

type 'a species = { kind : skind; sname : nat;
                    stoichiometry : (nat * nat) list; molar_mass : 'a;
                    charge_number : z; ionisation_energy : 'a;
                    dissociation_energy : 'a; energy_levels : ('a * 'a) list;
                    g0 : 'a; w_e : 'a; b_e : 'a; sigma_s : 'a;
                    linear_yn : bool; wi_e : 'a list; abc_e : 'a list;
                    polarisability : 'a; multiplicity : 'a;
                    effective_electrons : 'a option;
                    electron_cross_section : ((('a * 'a) * 'a) * 'a) option;
                    emission_lines : (('a * 'a) * 'a) list }

val stoich_eqb : (nat * nat) list -> (nat * nat) list -> bool

type qtag =
| Qc_tag
| Qe_tag
| Qnn_tag
| Qtr_tag
| Qin_tag

type qclass =
| CCall of qtag * bool
| CUnknown

val harm : 'a1 num -> nat -> nat -> nat -> 'a1

val psiconst : 'a1 num -> nat -> 'a1

val sum2 : 'a1 num -> nat -> 'a1

val sum1 : 'a1 num -> 'a1 units -> nat -> 'a1

val q_recursion :
  'a1 num -> (nat -> bool) -> (nat -> 'a1 -> 'a1) -> nat -> nat -> 'a1 -> 'a1

val q00 :
  'a1 num -> (nat -> nat -> 'a1) -> (nat -> 'a1) -> nat -> (nat -> 'a1) ->
  nat -> nat -> 'a1

val q01 :
  'a1 num -> (nat -> nat -> 'a1) -> (nat -> nat -> 'a1) -> (nat -> 'a1) ->
  nat -> (nat -> 'a1) -> nat -> nat -> 'a1

val q02 :
  'a1 num -> (nat -> nat -> 'a1) -> (nat -> nat -> 'a1) -> (nat -> nat ->
  'a1) -> (nat -> 'a1) -> nat -> (nat -> 'a1) -> nat -> nat -> 'a1

val q03 :
  'a1 num -> (nat -> nat -> 'a1) -> (nat -> nat -> 'a1) -> (nat -> nat ->
  'a1) -> (nat -> nat -> 'a1) -> (nat -> 'a1) -> nat -> (nat -> 'a1) -> nat
  -> nat -> 'a1

val q11 :
  'a1 num -> (nat -> nat -> 'a1) -> (nat -> nat -> 'a1) -> (nat -> nat ->
  'a1) -> (nat -> nat -> 'a1) -> (nat -> 'a1) -> nat -> (nat -> 'a1) -> nat
  -> nat -> 'a1

val q12 :
  'a1 num -> (nat -> nat -> 'a1) -> (nat -> nat -> 'a1) -> (nat -> nat ->
  'a1) -> (nat -> nat -> 'a1) -> (nat -> nat -> 'a1) -> (nat -> nat -> 'a1)
  -> (nat -> 'a1) -> nat -> (nat -> 'a1) -> nat -> nat -> 'a1

val q13 :
  'a1 num -> (nat -> nat -> 'a1) -> (nat -> nat -> 'a1) -> (nat -> nat ->
  'a1) -> (nat -> nat -> 'a1) -> (nat -> nat -> 'a1) -> (nat -> nat -> 'a1)
  -> (nat -> nat -> 'a1) -> (nat -> nat -> 'a1) -> (nat -> 'a1) -> nat ->
  (nat -> 'a1) -> nat -> nat -> 'a1

val q22 :
  'a1 num -> (nat -> nat -> 'a1) -> (nat -> nat -> 'a1) -> (nat -> nat ->
  'a1) -> (nat -> nat -> 'a1) -> (nat -> nat -> 'a1) -> (nat -> nat -> 'a1)
  -> (nat -> nat -> 'a1) -> (nat -> nat -> 'a1) -> (nat -> nat -> 'a1) ->
  (nat -> 'a1) -> nat -> (nat -> 'a1) -> nat -> nat -> 'a1

val q23 :
  'a1 num -> (nat -> nat -> 'a1) -> (nat -> nat -> 'a1) -> (nat -> nat ->
  'a1) -> (nat -> nat -> 'a1) -> (nat -> nat -> 'a1) -> (nat -> nat -> 'a1)
  -> (nat -> nat -> 'a1) -> (nat -> nat -> 'a1) -> (nat -> nat -> 'a1) ->
  (nat -> nat -> 'a1) -> (nat -> nat -> 'a1) -> (nat -> nat -> 'a1) -> (nat
  -> 'a1) -> nat -> (nat -> 'a1) -> nat -> nat -> 'a1

val q33 :
  'a1 num -> (nat -> nat -> 'a1) -> (nat -> nat -> 'a1) -> (nat -> nat ->
  'a1) -> (nat -> nat -> 'a1) -> (nat -> nat -> 'a1) -> (nat -> nat -> 'a1)
  -> (nat -> nat -> 'a1) -> (nat -> nat -> 'a1) -> (nat -> nat -> 'a1) ->
  (nat -> nat -> 'a1) -> (nat -> nat -> 'a1) -> (nat -> nat -> 'a1) -> (nat
  -> nat -> 'a1) -> (nat -> nat -> 'a1) -> (nat -> nat -> 'a1) -> (nat -> nat
  -> 'a1) -> (nat -> 'a1) -> nat -> (nat -> 'a1) -> nat -> nat -> 'a1

val qhat00 :
  'a1 num -> (nat -> nat -> 'a1) -> (nat -> nat -> 'a1) -> (nat -> 'a1) ->
  nat -> (nat -> 'a1) -> nat -> nat -> 'a1

val qhat01 :
  'a1 num -> (nat -> nat -> 'a1) -> (nat -> nat -> 'a1) -> (nat -> nat ->
  'a1) -> (nat -> nat -> 'a1) -> (nat -> 'a1) -> nat -> (nat -> 'a1) -> nat
  -> nat -> 'a1

val qhat11 :
  'a1 num -> (nat -> nat -> 'a1) -> (nat -> nat -> 'a1) -> (nat -> nat ->
  'a1) -> (nat -> nat -> 'a1) -> (nat -> nat -> 'a1) -> (nat -> nat -> 'a1)
  -> (nat -> nat -> 'a1) -> (nat -> 'a1) -> nat -> (nat -> 'a1) -> nat -> nat
  -> 'a1

val c_nn_tab : 'a1 num -> nat -> nat -> (('a1 * 'a1) * 'a1) list

val c_in_tab : 'a1 num -> nat -> nat -> (('a1 * 'a1) * 'a1) list

val fit_coeffs : 'a1 num -> (('a1 * 'a1) * 'a1) list -> 'a1 -> 'a1 list

val pot_nn : 'a1 num -> 'a1 species -> 'a1 species -> 'a1 * 'a1

val pot_in : 'a1 num -> 'a1 species -> 'a1 species -> 'a1 * 'a1

val beta_par : 'a1 num -> 'a1 species -> 'a1 species -> 'a1

val x0_nn : 'a1 num -> 'a1 -> 'a1

val x0_in : 'a1 num -> 'a1 -> 'a1

val cl_charged :
  'a1 num -> 'a1 units -> 'a1 species -> 'a1 species -> 'a1 -> 'a1 -> 'a1 ->
  'a1

val a_fit : 'a1 num -> 'a1 units -> 'a1 -> 'a1

val b_fit : 'a1 num -> 'a1 units -> 'a1 -> 'a1

val qe_closed :
  'a1 num -> 'a1 units -> 'a1 -> 'a1 -> 'a1 -> 'a1 -> 'a1 species -> nat ->
  nat -> 'a1 -> 'a1

val qe : 'a1 num -> 'a1 units -> 'a1 species -> nat -> nat -> 'a1 -> 'a1

val qnn_guard : nat -> nat -> bool

val qnn_fit :
  'a1 num -> 'a1 units -> 'a1 species -> 'a1 species -> nat -> nat -> 'a1 ->
  'a1

val qnn :
  'a1 num -> 'a1 units -> 'a1 species -> 'a1 species -> nat -> nat -> 'a1 ->
  'a1

val qin_guard : nat -> nat -> bool

val qin_fit :
  'a1 num -> 'a1 units -> 'a1 species -> 'a1 species -> nat -> nat -> 'a1 ->
  'a1

val qin :
  'a1 num -> 'a1 units -> 'a1 species -> 'a1 species -> nat -> nat -> 'a1 ->
  'a1

val qtr :
  'a1 num -> 'a1 units -> 'a1 species -> 'a1 species -> nat -> 'a1 -> 'a1

val qc :
  'a1 num -> 'a1 units -> 'a1 species -> 'a1 -> 'a1 species -> 'a1 -> nat ->
  nat -> 'a1 -> 'a1

val qij :
  'a1 num -> 'a1 units -> 'a1 species -> 'a1 -> 'a1 species -> 'a1 -> nat ->
  nat -> 'a1 -> 'a1

val qij_class :
  'a1 species -> 'a1 -> 'a1 species -> 'a1 -> nat -> nat -> 'a1 -> qclass

type 'a qints = { i11 : (nat -> nat -> 'a); i12 : (nat -> nat -> 'a);
                  i13 : (nat -> nat -> 'a); i14 : (nat -> nat -> 'a);
                  i15 : (nat -> nat -> 'a); i16 : (nat -> nat -> 'a);
                  i17 : (nat -> nat -> 'a); i22 : (nat -> nat -> 'a);
                  i23 : (nat -> nat -> 'a); i24 : (nat -> nat -> 'a);
                  i25 : (nat -> nat -> 'a); i26 : (nat -> nat -> 'a);
                  i33 : (nat -> nat -> 'a); i34 : (nat -> nat -> 'a);
                  i35 : (nat -> nat -> 'a); i44 : (nat -> nat -> 'a) }

val mr : 'a1 num -> (nat -> 'a1) -> nat -> nat -> 'a1

val b00 :
  'a1 num -> 'a1 qints -> (nat -> 'a1) -> nat -> (nat -> 'a1) -> nat -> nat
  -> 'a1

val b01 :
  'a1 num -> 'a1 qints -> (nat -> 'a1) -> nat -> (nat -> 'a1) -> nat -> nat
  -> 'a1

val b02 :
  'a1 num -> 'a1 qints -> (nat -> 'a1) -> nat -> (nat -> 'a1) -> nat -> nat
  -> 'a1

val b03 :
  'a1 num -> 'a1 qints -> (nat -> 'a1) -> nat -> (nat -> 'a1) -> nat -> nat
  -> 'a1

val b11 :
  'a1 num -> 'a1 qints -> (nat -> 'a1) -> nat -> (nat -> 'a1) -> nat -> nat
  -> 'a1

val b12 :
  'a1 num -> 'a1 qints -> (nat -> 'a1) -> nat -> (nat -> 'a1) -> nat -> nat
  -> 'a1

val b13 :
  'a1 num -> 'a1 qints -> (nat -> 'a1) -> nat -> (nat -> 'a1) -> nat -> nat
  -> 'a1

val b22 :
  'a1 num -> 'a1 qints -> (nat -> 'a1) -> nat -> (nat -> 'a1) -> nat -> nat
  -> 'a1

val b23 :
  'a1 num -> 'a1 qints -> (nat -> 'a1) -> nat -> (nat -> 'a1) -> nat -> nat
  -> 'a1

val b33 :
  'a1 num -> 'a1 qints -> (nat -> 'a1) -> nat -> (nat -> 'a1) -> nat -> nat
  -> 'a1

val h00 :
  'a1 num -> 'a1 qints -> (nat -> 'a1) -> nat -> (nat -> 'a1) -> nat -> nat
  -> 'a1

val h01 :
  'a1 num -> 'a1 qints -> (nat -> 'a1) -> nat -> (nat -> 'a1) -> nat -> nat
  -> 'a1

val h11 :
  'a1 num -> 'a1 qints -> (nat -> 'a1) -> nat -> (nat -> 'a1) -> nat -> nat
  -> 'a1

val qblock :
  'a1 num -> 'a1 qints -> (nat -> 'a1) -> nat -> (nat -> 'a1) -> nat -> nat
  -> nat -> nat -> 'a1

val qhatblock :
  'a1 num -> 'a1 qints -> (nat -> 'a1) -> nat -> (nat -> 'a1) -> nat -> nat
  -> nat -> nat -> 'a1

val qentry :
  'a1 num -> 'a1 qints -> (nat -> 'a1) -> nat -> (nat -> 'a1) -> nat -> nat
  -> 'a1

val qhatentry :
  'a1 num -> 'a1 qints -> (nat -> 'a1) -> nat -> (nat -> 'a1) -> nat -> nat
  -> 'a1

val kTv : 'a1 num -> 'a1 units -> 'a1 -> 'a1

val dij_rhs : 'a1 num -> nat -> nat -> nat -> 'a1

val dij_value :
  'a1 num -> 'a1 units -> 'a1 -> 'a1 -> 'a1 -> (nat -> 'a1) -> (nat -> 'a1)
  -> nat -> nat -> 'a1 -> 'a1

val dTi_rhs1 : 'a1 num -> (nat -> 'a1) -> nat -> 'a1

val dTi_value :
  'a1 num -> 'a1 units -> 'a1 -> (nat -> 'a1) -> (nat -> 'a1) -> nat -> 'a1
  -> 'a1

val visc_rhs0 :
  'a1 num -> 'a1 units -> 'a1 -> (nat -> 'a1) -> (nat -> 'a1) -> nat -> 'a1

val visc_value :
  'a1 num -> 'a1 units -> 'a1 -> (nat -> 'a1) -> nat -> (nat -> 'a1) -> 'a1

val kdash_value :
  'a1 num -> 'a1 units -> 'a1 -> (nat -> 'a1) -> (nat -> 'a1) -> nat -> (nat
  -> 'a1) -> 'a1

val sigma_value :
  'a1 num -> 'a1 units -> 'a1 -> 'a1 -> 'a1 -> (nat -> 'a1) -> (nat -> 'a1)
  -> (nat -> 'a1) -> nat -> (nat -> 'a1) -> 'a1

val hv_rescaled :
  'a1 num -> 'a1 -> 'a1 -> (nat -> 'a1) -> (nat -> 'a1) -> nat -> 'a1

val idx_sum : 'a1 num -> nat -> (nat -> 'a1) -> 'a1

val dxdT_value :
  'a1 num -> 'a1 -> 'a1 -> nat -> (nat -> 'a1) -> (nat -> 'a1) -> nat -> 'a1

val kdt_value : 'a1 num -> 'a1 -> nat -> (nat -> 'a1) -> (nat -> 'a1) -> 'a1

val krxn_enth_value :
  'a1 num -> 'a1 -> 'a1 -> (nat -> 'a1) -> (nat -> 'a1) -> (nat -> 'a1) ->
  (nat -> nat -> 'a1) -> nat -> 'a1

val krxn_therm_value :
  'a1 num -> 'a1 units -> 'a1 -> 'a1 -> 'a1 -> (nat -> 'a1) -> (nat -> 'a1)
  -> (nat -> 'a1) -> (nat -> 'a1) -> nat -> 'a1

val kappa_total :
  'a1 num -> 'a1 units -> bool -> 'a1 -> 'a1 -> 'a1 -> 'a1 -> (nat -> 'a1) ->
  (nat -> 'a1) -> (nat -> 'a1) -> (nat -> 'a1) -> (nat -> 'a1) -> (nat -> nat
  -> 'a1) -> nat -> 'a1 -> 'a1
