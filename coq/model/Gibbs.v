(* Gibbs.v — hand-written executable model of one iteration of LTE.calculate_composition (mixture.py):
   constraint matrix and right-hand side from x0, chemical potentials, the Lagrange / Newton (KKT) system,
   the relaxed update and the stopping quantity.  numpy.linalg.solve is not modelled: a solution of the
   linear system is an input (the recorded one in the correspondence check; any solution in the theorems). *)
From Coq Require Import ZArith List Bool Arith.
Import ListNotations.
From MPC Require Import Num Species GenSpecies RefEnergy.

(* sorted set of the element ids that occur (ids are assigned by the harness in the order of the sorted names) *)
Fixpoint insert_nodup (x : nat) (l : list nat) : list nat :=
  match l with
  | [] => [x]
  | y :: r => if Nat.ltb x y then x :: l else if Nat.eqb x y then l else y :: insert_nodup x r
  end.
Definition elements {A} (sps : list (species A)) : list nat :=
  fold_left (fun acc sp => fold_left (fun a ec => insert_nodup (fst ec) a) (stoichiometry sp) acc) sps [].
Fixpoint coeff (el : nat) (st : list (nat * nat)) : nat :=
  match st with [] => 0 | (e, c) :: r => if Nat.eqb e el then c else coeff el r end.

Section Gibbs.
Context {A : Type} (N : Num A) (U : Units A).
Local Notation "x + y" := (nadd N x y). Local Notation "x - y" := (nsub N x y).
Local Notation "x * y" := (nmul N x y). Local Notation "x / y" := (ndiv N x y).
Local Notation "# z" := (nofZ N z) (at level 5).

Definition dot (u v : list A) : A := sum_list N (map2 (nmul N) u v).

(* one column of the constraint matrix per element, then the charge column *)
Definition constraint_cols (sps : list (species A)) : list (list A) :=
  map (fun el => map (fun sp => # (Z.of_nat (coeff el (stoichiometry sp)))) sps) (elements sps)
  ++ [map (fun sp => # (charge_number sp)) sps].
(* element totals 1e24 * sum_i c_ik x0_i (x0 padded with 0 for the electron), charge total 0 *)
Definition bvec (sps : list (species A)) (x0 : list A) : list A :=
  map (fun el => fold_left (fun acc cx => acc + # (10 ^ 24)%Z * # (Z.of_nat (coeff el (stoichiometry (fst cx)))) * snd cx)
                           (combine sps x0) (# 0%Z)) (elements sps)
  ++ [# 0%Z].

(* chemical potential of one species: -kT ln(Ztot / N) + E0, Ztot = V * Ztr * Zint *)
Definition mu_entry (T V : A) (sp : species A) (n e0 de : A) : A :=
  nopp N (kT N U T) * nln N (total_Z N U sp V T de / n) + e0.
Definition mu_list (T P : A) (sps : list (species A)) (Ni E0 dE : list A) : list A :=
  let V := volume N U T P Ni in
  map (fun q => let '(sp, (n, (e0, de))) := q in mu_entry T V sp n e0 de)
      (combine sps (combine Ni (combine E0 dE))).

(* (A lam)_i = sum_k c_ik lam_k, column by column *)
Fixpoint alam (cols : list (list A)) (lam : list A) (zero : list A) : list A :=
  match cols, lam with
  | c :: cs, l :: ls => map2 (nadd N) (map (fun x => x * l) c) (alam cs ls zero)
  | _, _ => zero
  end.

(* residuals of the linear system solved at particle numbers Ni for the proposal (Nn, lam):
   species rows  kT/N_i Nn_i - kT/Ntot sum(Nn) + sum_k c_ik lam_k + mu_i ;  constraint rows  col_k . Nn - b_k *)
Definition species_residual (kt ntot sn n nn al m : A) : A := kt / n * nn - kt / ntot * sn + al + m.
Definition kkt_species_residuals (T : A) (cols : list (list A)) (Ni mu Nn lam : list A) : list A :=
  let ntot := sum_list N Ni in
  let sn := sum_list N Nn in
  let al := alam cols lam (map (fun _ => # 0%Z) Ni) in
  map (fun q => let '(n, (nn, (a, m))) := q in species_residual (kT N U T) ntot sn n nn a m)
      (combine Ni (combine Nn (combine al mu))).
Definition kkt_constraint_residuals (cols : list (list A)) (b Nn : list A) : list A :=
  map2 (fun c bk => dot c Nn - bk) cols b.

(* the relaxed update: r = min_i (g N_i / max(|Nn_i - N_i|, g N_i));  N <- (1 - r) N + r Nn;
   stopping quantity: see stop_quantity below *)
Definition relax_term (g n nn : A) : A :=
  let d := nabs N (nn - n) in let m := g * n in m / (if nltb N d m then m else d).
Definition relax_factor (g : A) (Ni Nn : list A) : A :=
  match map2 (relax_term g) Ni Nn with [] => # 1%Z | f :: r => min_list N f r end.
Definition relaxed (r : A) (Ni Nn : list A) : list A :=
  map2 (fun n nn => (# 1%Z - r) * n + r * nn) Ni Nn.
(* stopping quantity: the largest relative Newton step among the species carrying more than 1e-7 of the most abundant
   one (the most abundant one always included) *)
Definition stop_quantity (Ni Nn : list A) : A :=
  let j := argmax N Nn in
  let nmax := nth j Nn (# 0%Z) in
  let thr := (# 1%Z / # (10 ^ 7)%Z) * nmax in
  let q := fun n nn => nabs N (nn - n) / nn in
  fold_left (fun m t => let '(n, nn) := t in
                        if nltb N thr nn then (if nltb N m (q n nn) then q n nn else m) else m)
            (combine Ni Nn) (q (nth j Ni (# 0%Z)) nmax).

Definition number_densities (T P : A) (Ni : list A) : list A := densities N U T P Ni.
End Gibbs.
