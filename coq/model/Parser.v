(* Parser.v — hand-written executable model of minplascalc/parsers.py over lists of
   characters (code points 0..255).  Tied to the code by the correspondence check (exact).
   float(str) is modelled as exact decimal -> (sign, mantissa, power of ten); Python then
   rounds that rational correctly (trusted; compared through Fraction in the harness). *)
From Coq Require Import List Ascii NArith ZArith Bool Arith.
Import ListNotations.
Open Scope char_scope.

Definition str := list ascii.

(* str.split() with no argument: the characters Python's str.isspace accepts below 256 *)
Definition is_ws (c : ascii) : bool :=
  let n := nat_of_ascii c in
  ((9 <=? n) && (n <=? 13) || (28 <=? n) && (n <=? 32) || (n =? 133) || (n =? 160))%nat.
(* str.maketrans("", "", "+x?[]()") *)
Definition is_annot (c : ascii) : bool :=
  match c with "+" | "x" | "?" | "[" | "]" | "(" | ")" => true | _ => false end.
Definition strippable (c : ascii) : bool := is_ws c || is_annot c.
Definition strip (s : str) : str := filter (fun c => negb (strippable c)) s.

(* str.split(sep) for a one-character separator: n separators give n+1 pieces *)
Fixpoint split_on (sep : ascii) (s : str) : list str :=
  match s with
  | [] => [[]]
  | c :: r =>
    if Ascii.eqb c sep then [] :: split_on sep r
    else match split_on sep r with
         | [] => [[c]]            (* unreachable: split_on never returns [] *)
         | p :: ps => (c :: p) :: ps
         end
  end.

Inductive digit := D0 | D1 | D2 | D3 | D4 | D5 | D6 | D7 | D8 | D9.
Definition digit_of_char (c : ascii) : option digit :=
  match c with
  | "0" => Some D0 | "1" => Some D1 | "2" => Some D2 | "3" => Some D3 | "4" => Some D4
  | "5" => Some D5 | "6" => Some D6 | "7" => Some D7 | "8" => Some D8 | "9" => Some D9
  | _ => None
  end.
Definition char_of_digit (d : digit) : ascii :=
  match d with
  | D0 => "0" | D1 => "1" | D2 => "2" | D3 => "3" | D4 => "4"
  | D5 => "5" | D6 => "6" | D7 => "7" | D8 => "8" | D9 => "9"
  end.
Definition N_of_digit (d : digit) : N :=
  match d with
  | D0 => 0 | D1 => 1 | D2 => 2 | D3 => 3 | D4 => 4 | D5 => 5 | D6 => 6 | D7 => 7 | D8 => 8 | D9 => 9
  end%N.
Definition N_of_digits (ds : list digit) : N := fold_left (fun acc d => (10 * acc + N_of_digit d)%N) ds 0%N.

(* longest prefix of digits *)
Fixpoint span_digits (s : str) : list digit * str :=
  match s with
  | [] => ([], [])
  | c :: r => match digit_of_char c with
              | Some d => let (ds, rest) := span_digits r in (d :: ds, rest)
              | None => ([], s)
              end
  end.

(* an exact decimal: (-1)^neg * mant * 10^exp10 *)
Record dec := mkDec { d_neg : bool; d_mant : N; d_exp : Z }.

Definition take_minus (s : str) : bool * str :=
  match s with "-" :: r => (true, r) | _ => (false, s) end.

(* the grammar of float() reachable after stripping: [-] (digits [. [digits]] | . digits) [(e|E) [-] digits] *)
Definition parse_float (s : str) : option dec :=
  let (neg, s1) := take_minus s in
  let (ip, s2) := span_digits s1 in
  let '(fp, s3) := match s2 with "." :: r => span_digits r | _ => ([], s2) end in
  match ip, fp with
  | [], [] => None
  | _, _ =>
    let mant := N_of_digits (ip ++ fp) in
    let fl := Z.of_nat (List.length fp) in
    match s3 with
    | [] => Some (mkDec neg mant (- fl))
    | c :: r =>
      if Ascii.eqb c "e" || Ascii.eqb c "E" then
        let (eneg, r1) := take_minus r in
        let (ed, r2) := span_digits r1 in
        match ed, r2 with
        | _ :: _, [] =>
          let e := Z.of_N (N_of_digits ed) in
          Some (mkDec neg mant ((if eneg then - e else e) - fl))
        | _, _ => None
        end
      else None
    end
  end.

Inductive value := VNum (d : dec) | VFrac (num den : dec).
Inductive perr := EValue | EZeroDiv.     (* ValueError | ZeroDivisionError *)

Definition has_slash (s : str) : bool := existsb (fun c => Ascii.eqb c "/") s.

Definition parse_record (r : str) : perr + value :=
  if has_slash r then
    match split_on "/" r with
    | [a; b] =>
      match parse_float a with
      | None => inl EValue
      | Some da =>
        match parse_float b with
        | None => inl EValue
        | Some db => if N.eqb (d_mant db) 0 then inl EZeroDiv else inr (VFrac da db)
        end
      end
    | _ => inl EValue                  (* too many values to unpack *)
    end
  else match parse_float r with Some d => inr (VNum d) | None => inl EValue end.

Fixpoint parse_records (rs : list str) : perr + list value :=
  match rs with
  | [] => inr []
  | r :: rest =>
    match parse_record r with
    | inl e => inl e
    | inr v => match parse_records rest with inl e => inl e | inr vs => inr (v :: vs) end
    end
  end.

Definition nist_string (line : str) : perr + list value :=
  parse_records (removelast (split_on "|" (strip line))).

(* nist_energy_levels: ValueError (incl. a field count other than 2) is wrapped with the index and
   text of the line; ZeroDivisionError escapes un-wrapped *)
Inductive lerr := LineError (index : nat) (line : str) | ZeroDivEscapes.

Fixpoint levels_from (i : nat) (lines : list str) : lerr + list (value * value) :=
  match lines with
  | [] => inr []
  | l :: rest =>
    match nist_string l with
    | inl EZeroDiv => inl ZeroDivEscapes
    | inl EValue => inl (LineError i l)
    | inr [j; e] => match levels_from (S i) rest with inl er => inl er | inr ps => inr ((j, e) :: ps) end
    | inr _ => inl (LineError i l)
    end
  end.
Definition nist_energy_levels (lines : list str) := levels_from 0 lines.
