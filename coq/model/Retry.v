(* Retry.v — hand-written executable model of the control flow of LTE.calculate_composition:
   the governor (relaxation) schedule, the inner iteration with its three exits, and the warning.
   The numerical step is abstract: each inner iteration yields an observation of its stopping quantity. *)
From Coq Require Import List Arith Bool.
Import ListNotations.

Inductive obs :=
| Above        (* a finite number > rtol: keep iterating *)
| NotAbove     (* a finite number <= rtol: the loop condition fails, the attempt succeeds *)
| NonFinite.   (* NaN or infinite: the attempt fails (the repaired behaviour) *)

Inductive attempt_result := Converged (iters : nat) | Failed (iters : nat).

Section Retry.
Variable max_iter : nat.                       (* gfe_max_iter *)
Variable n_gov : nat.                          (* number of governor factors (9) *)
Variable observe : nat -> nat -> obs.          (* governor attempt -> iteration (0-based) -> observation *)

(* one governor attempt; `rem` = max_iter - (iterations done so far) *)
Fixpoint inner (g rem it : nat) : attempt_result :=
  match observe g it with
  | NonFinite => Failed (S it)
  | o =>
    match rem with
    | O => Failed (S it)                                   (* minimiser_iters > gfe_max_iter *)
    | S rem' => match o with Above => inner g rem' (S it) | _ => Converged (S it) end
    end
  end.
Definition attempt (g : nat) : attempt_result := inner g max_iter 0.

(* the outer loop: try governor factors in turn until one attempt converges *)
Fixpoint outer (left g : nat) (log : list attempt_result) : list attempt_result * bool (* success *) :=
  match left with
  | O => (rev log, false)
  | S left' =>
    match attempt g with
    | Converged k => (rev (Converged k :: log), true)
    | Failed k => outer left' (S g) (Failed k :: log)
    end
  end.
Definition solve_control : list attempt_result * bool := outer n_gov 0 [].
Definition warns : bool := negb (snd solve_control).
End Retry.
