(* SpeciesIO.v — executable model of species construction, to_file (json.dump of __dict__) and
   from_file (json.load, dispatch on atom count, positional constructor call), parametric in the
   class tables that the translator regenerates from species.py (gen/GenSpeciesIO.v).
   json.dump / json.load themselves are modelled as mutually inverse maps between JSON trees and
   text (trusted; exercised through real files by the correspondence check). *)
From Coq Require Import List String ZArith Bool.
Import ListNotations.
Open Scope string_scope.

(* a float is an opaque finite identity (its bit pattern) or an infinity; NaN is excluded (NaN <> NaN) *)
Inductive fl := Fin (bits : Z) | PosInf | NegInf.

Inductive pyval :=
| PNone | PBool (b : bool) | PInt (z : Z) | PFloat (f : fl) | PStr (s : string)
| PList (l : list pyval) | PTuple (l : list pyval) | PDict (l : list (string * pyval)).

Inductive json :=
| JNull | JBool (b : bool) | JInt (z : Z) | JFloat (f : fl) (* Infinity / -Infinity included *) | JStr (s : string)
| JArr (l : list json) | JObj (l : list (string * json)).

Fixpoint to_json (v : pyval) : json :=
  match v with
  | PNone => JNull | PBool b => JBool b | PInt z => JInt z | PFloat f => JFloat f | PStr s => JStr s
  | PList l => JArr (map to_json l)
  | PTuple l => JArr (map to_json l)            (* json.dump writes tuples as arrays *)
  | PDict l => JObj (map (fun kv => (fst kv, to_json (snd kv))) l)
  end.

Fixpoint of_json (j : json) : pyval :=
  match j with
  | JNull => PNone | JBool b => PBool b | JInt z => PInt z | JFloat f => PFloat f | JStr s => PStr s
  | JArr l => PList (map of_json l)             (* json.load reads arrays as lists *)
  | JObj l => PDict (map (fun kv => (fst kv, of_json (snd kv))) l)
  end.

(* "sequences compared by value": tuples and lists are identified, nothing else *)
Fixpoint normalize (v : pyval) : pyval :=
  match v with
  | PList l => PList (map normalize l)
  | PTuple l => PList (map normalize l)
  | PDict l => PDict (map (fun kv => (fst kv, normalize (snd kv))) l)
  | _ => v
  end.

Definition obj := list (string * pyval).           (* __dict__, in insertion order *)
Definition norm_obj (o : obj) : obj := map (fun kv => (fst kv, normalize (snd kv))) o.
Definition file_roundtrip (o : obj) : obj :=       (* json.load (json.dump o) *)
  map (fun kv => (fst kv, of_json (to_json (snd kv)))) o.

Fixpoint lookup {B} (d : list (string * B)) (k : string) : option B :=
  match d with [] => None | (k', v) :: r => if String.eqb k k' then Some v else lookup r k end.

Fixpoint dict_set (d : obj) (k : string) (v : pyval) : obj :=
  match d with
  | [] => [(k, v)]
  | (k', v') :: r => if String.eqb k k' then (k', v) :: r else (k', v') :: dict_set r k v
  end.

Fixpoint mapM {B C} (f : B -> option C) (l : list B) : option (list C) :=
  match l with
  | [] => Some []
  | x :: r => match f x with None => None | Some y => match mapM f r with None => None | Some ys => Some (y :: ys) end end
  end.

Definition bind_params (params : list string) (args : list pyval) : option (list (string * pyval)) :=
  if Nat.eqb (List.length params) (List.length args) then Some (combine params args) else None.   (* TypeError otherwise *)

Fixpoint run_assigns (env : list (string * pyval)) (assigns : list (string * string)) (d : obj) : option obj :=
  match assigns with
  | [] => Some d
  | (attr, p) :: r => match lookup env p with None => None | Some v => run_assigns env r (dict_set d attr v) end
  end.

Record class_spec := mkClass {
  c_name : string; c_params : list string; c_super_args : list string;
  c_assigns : list (string * string); c_keys : list string }.

Section WithTables.
Variables (base_params : list string) (base_assigns : list (string * string)).
Variables (classes : list class_spec) (dispatch_table : list (Z * string)) (dispatch_default : string).

(* C(args): bind positionally, call Species.__init__ with the super arguments, then the class's own assignments *)
Definition construct (c : class_spec) (args : list pyval) : option obj :=
  match bind_params (c_params c) args with
  | None => None
  | Some env =>
    match mapM (lookup env) (c_super_args c) with
    | None => None
    | Some sv =>
      match bind_params base_params sv with
      | None => None
      | Some benv =>
        match run_assigns benv base_assigns [] with
        | None => None
        | Some d => run_assigns env (c_assigns c) d
        end
      end
    end
  end.

Definition to_file (o : obj) : obj := o.      (* json.dump(self.__dict__) *)

Fixpoint sum_counts (l : list (string * pyval)) : option Z :=
  match l with
  | [] => Some 0%Z
  | (_, PInt z) :: r => match sum_counts r with Some t => Some (z + t)%Z | None => None end
  | _ => None
  end.
Definition atom_count (v : pyval) : option Z := match v with PDict l => sum_counts l | _ => None end.

Fixpoint dispatch (n : Z) (t : list (Z * string)) : string :=
  match t with [] => dispatch_default | (k, c) :: r => if Z.eqb n k then c else dispatch n r end.

Fixpoint find_class (nm : string) (cs : list class_spec) : option class_spec :=
  match cs with [] => None | c :: r => if String.eqb nm (c_name c) then Some c else find_class nm r end.

(* from_file on the loaded dictionary *)
Definition from_file (d : obj) : option (string * obj) :=
  match lookup d "stoichiometry" with
  | None => None                                         (* KeyError *)
  | Some st =>
    match atom_count st with
    | None => None
    | Some n =>
      match find_class (dispatch n dispatch_table) classes with
      | None => None
      | Some c =>
        match mapM (lookup d) (c_keys c) with
        | None => None                                   (* KeyError *)
        | Some args => match construct c args with None => None | Some o => Some (c_name c, o) end
        end
      end
    end
  end.
End WithTables.
