(* Transport.v — hand-written model of the assembly in functions_transport.q / qhat / Dij / DTi / viscosity /
   electrical_conductivity (the Devoto blocks themselves are regenerated: gen/GenTransport.v).
   Linear solves are not modelled: the coefficient vectors are inputs (any solution in the theorems). *)
From Coq Require Import ZArith List Bool Arith.
Import ListNotations.
From MPC Require Import Num Species GenTransport.

Section Transport.
Context {A : Type} (N : Num A) (U : Units A).
Local Notation "x + y" := (nadd N x y). Local Notation "x - y" := (nsub N x y).
Local Notation "x * y" := (nmul N x y). Local Notation "x / y" := (ndiv N x y).
Local Notation "# z" := (nofZ N z) (at level 5).

(* the sixteen collision-integral arrays Q^(l,s)_ij consumed by the blocks *)
Record qints := mkQints {
  I11 : nat -> nat -> A; I12 : nat -> nat -> A; I13 : nat -> nat -> A; I14 : nat -> nat -> A;
  I15 : nat -> nat -> A; I16 : nat -> nat -> A; I17 : nat -> nat -> A;
  I22 : nat -> nat -> A; I23 : nat -> nat -> A; I24 : nat -> nat -> A; I25 : nat -> nat -> A; I26 : nat -> nat -> A;
  I33 : nat -> nat -> A; I34 : nat -> nat -> A; I35 : nat -> nat -> A; I44 : nat -> nat -> A }.

Section Blocks.
Variables (Q : qints) (masses : nat -> A) (nb : nat) (nd : nat -> A).
Definition mr (i j : nat) : A := masses j / masses i.      (* masses[np.newaxis, :] / masses[:, np.newaxis] *)

Definition b00 := q00 N (I11 Q) masses nb nd.
Definition b01 := q01 N (I11 Q) (I12 Q) masses nb nd.
Definition b02 := q02 N (I11 Q) (I12 Q) (I13 Q) masses nb nd.
Definition b03 := q03 N (I11 Q) (I12 Q) (I13 Q) (I14 Q) masses nb nd.
Definition b11 := q11 N (I11 Q) (I12 Q) (I13 Q) (I22 Q) masses nb nd.
Definition b12 := q12 N (I11 Q) (I12 Q) (I13 Q) (I14 Q) (I22 Q) (I23 Q) masses nb nd.
Definition b13 := q13 N (I11 Q) (I12 Q) (I13 Q) (I14 Q) (I15 Q) (I22 Q) (I23 Q) (I24 Q) masses nb nd.
Definition b22 := q22 N (I11 Q) (I12 Q) (I13 Q) (I14 Q) (I15 Q) (I22 Q) (I23 Q) (I24 Q) (I33 Q) masses nb nd.
Definition b23 := q23 N (I11 Q) (I12 Q) (I13 Q) (I14 Q) (I15 Q) (I16 Q) (I22 Q) (I23 Q) (I24 Q) (I25 Q) (I33 Q) (I34 Q) masses nb nd.
Definition b33 := q33 N (I11 Q) (I12 Q) (I13 Q) (I14 Q) (I15 Q) (I16 Q) (I17 Q) (I22 Q) (I23 Q) (I24 Q) (I25 Q) (I26 Q)
                        (I33 Q) (I34 Q) (I35 Q) (I44 Q) masses nb nd.
Definition h00 := qhat00 N (I11 Q) (I22 Q) masses nb nd.
Definition h01 := qhat01 N (I11 Q) (I12 Q) (I22 Q) (I23 Q) masses nb nd.
Definition h11 := qhat11 N (I11 Q) (I12 Q) (I13 Q) (I22 Q) (I23 Q) (I24 Q) (I33 Q) masses nb nd.

(* q = np.block([[q00 q01 q02 q03] [q10 q11 q12 q13] [q20 q21 q22 q23] [q30 q31 q32 q33]]) with the
   lower blocks obtained from the upper ones by powers of the mass ratio (Devoto A5, A8, A10, A13, A15, A17) *)
Definition qblock (a b : nat) (i j : nat) : A :=
  match a, b with
  | 0%nat, 0%nat => b00 i j | 0%nat, 1%nat => b01 i j | 0%nat, 2%nat => b02 i j | 0%nat, 3%nat => b03 i j
  | 1%nat, 0%nat => mr i j * b01 i j | 1%nat, 1%nat => b11 i j | 1%nat, 2%nat => b12 i j | 1%nat, 3%nat => b13 i j
  | 2%nat, 0%nat => npow N (mr i j) 2 * b02 i j | 2%nat, 1%nat => mr i j * b12 i j | 2%nat, 2%nat => b22 i j | 2%nat, 3%nat => b23 i j
  | 3%nat, 0%nat => npow N (mr i j) 3 * b03 i j | 3%nat, 1%nat => npow N (mr i j) 2 * b13 i j | 3%nat, 2%nat => mr i j * b23 i j | 3%nat, 3%nat => b33 i j
  | _, _ => # 0%Z
  end.
Definition qhatblock (a b : nat) (i j : nat) : A :=
  match a, b with
  | 0%nat, 0%nat => h00 i j | 0%nat, 1%nat => h01 i j | 1%nat, 0%nat => mr i j * h01 i j | 1%nat, 1%nat => h11 i j
  | _, _ => # 0%Z
  end.
(* entry (r, c) of the assembled matrices *)
Definition qentry (r c : nat) : A := qblock (r / nb) (c / nb) (r mod nb) (c mod nb).
Definition qhatentry (r c : nat) : A := qhatblock (r / nb) (c / nb) (r mod nb) (c mod nb).
End Blocks.

(* ---- right-hand sides and final formulae (hand-written from Dij, DTi, viscosity, electrical_conductivity) ---- *)
Definition kTv (T : A) : A := k_b U * T.
(* Dij: b_vec[:nb] = 3 sqrt(pi) (delta(h,i) - delta(h,j)); D_ij = rho n_i / (2 n_tot m_j) sqrt(2 kT / m_i) c_{0,i} *)
Definition Dij_rhs (i j h : nat) : A := # 3%Z * nsqrt N (npi N) * (delta N h i - delta N h j).
Definition Dij_value (rho ntot T : A) (masses nd : nat -> A) (i j : nat) (c0i : A) : A :=
  rho * nd i / (# 2%Z * ntot * masses j) * nsqrt N (# 2%Z * kTv T / masses i) * c0i.
(* DTi: b_vec[nb:2nb] = -15/2 sqrt(pi) n; D^T_i = 1/2 n_i m_i sqrt(2 kT / m_i) a_{0,i} *)
Definition DTi_rhs1 (nd : nat -> A) (i : nat) : A := nopp N (# 15%Z) / # 2%Z * nsqrt N (npi N) * nd i.
Definition DTi_value (T : A) (masses nd : nat -> A) (i : nat) (a0i : A) : A :=
  (# 1%Z / # 2%Z) * nd i * masses i * nsqrt N (# 2%Z * kTv T / masses i) * a0i.
(* viscosity: b_vec[:nb] = 5 n sqrt(2 pi m / kT); eta = 1/2 kT sum_i n_i b_{0,i} *)
Definition visc_rhs0 (T : A) (masses nd : nat -> A) (i : nat) : A :=
  # 5%Z * nd i * nsqrt N (# 2%Z * npi N * masses i / kTv T).
Definition visc_value (T : A) (nd : nat -> A) (nb : nat) (b0 : nat -> A) : A :=
  (# 1%Z / # 2%Z) * kTv T * sum_left N (map (fun i => nd i * b0 i) (seq 0 nb)).
(* translational thermal conductivity: k' = -5/4 k_B sum_i n_i sqrt(2 kT / m_i) a_{1,i} *)
Definition kdash_value (T : A) (masses nd : nat -> A) (nb : nat) (a1 : nat -> A) : A :=
  nopp N (# 5%Z) / # 4%Z * k_b U * sum_left N (map (fun i => nd i * nsqrt N (# 2%Z * kTv T / masses i) * a1 i) (seq 0 nb)).
(* electrical conductivity: sigma = e^2 n_tot / (rho kT) sum_j n_j m_j z_j D_{e j}, D_{e j} the last row of D *)
Definition sigma_value (rho ntot T : A) (masses nd charges : nat -> A) (nb : nat) (De : nat -> A) : A :=
  npow N (e_ch U) 2 * ntot / (rho * kTv T) * sum_left N (map (fun j => nd j * masses j * charges j * De j) (seq 0 nb)).
(* ---- total thermal conductivity (hand-written from functions_transport.thermal_conductivity) ----
   hv = h * m / (rho / n_tot); x+- = n+- / sum n+-; dxdT = (x+ - x-) / (2 delta T);
   k = k' + [sum hv DT / T] + [-(n_tot^2 / rho) sum_j sum_i m_j m_i hv_i D_ij dxdT_j]
          + [n_tot k_B T sum_i DT_i dxdTfilt_i / (n_i m_i)],  the bracketed DT parts only when DTterms_yn *)
Definition hv_rescaled (rho ntot : A) (masses h : nat -> A) (i : nat) : A := h i * masses i / (rho / ntot).
Definition idx_sum (nb : nat) (f : nat -> A) : A := sum_left N (map f (seq 0 nb)).
Definition dxdT_value (T delta : A) (nb : nat) (npos nneg : nat -> A) (j : nat) : A :=
  (npos j / idx_sum nb npos - nneg j / idx_sum nb nneg) / (# 2%Z * delta * T).
Definition kdt_value (T : A) (nb : nat) (hv DT : nat -> A) : A := idx_sum nb (fun i => hv i * DT i / T).
Definition krxn_enth_value (rho ntot : A) (masses hv dxdT : nat -> A) (D : nat -> nat -> A) (nb : nat) : A :=
  nopp N (npow N ntot 2) / rho *
  idx_sum nb (fun j => idx_sum nb (fun i => masses j * masses i * hv i * D i j * dxdT j)).
Definition krxn_therm_value (ntot T ni_limit : A) (masses nd DT dxdT : nat -> A) (nb : nat) : A :=
  ntot * k_b U * T * idx_sum nb (fun i => DT i * (if nltb N (nd i) ni_limit then # 0%Z else dxdT i) / (nd i * masses i)).
Definition kappa_total (dt_terms : bool) (rho ntot T ni_limit : A) (masses nd hv DT dxdT : nat -> A) (D : nat -> nat -> A)
           (nb : nat) (kdash : A) : A :=
  kdash + (if dt_terms then kdt_value T nb hv DT else # 0%Z) + krxn_enth_value rho ntot masses hv dxdT D nb
        + (if dt_terms then krxn_therm_value ntot T ni_limit masses nd DT dxdT nb else # 0%Z).
(* ---- the collision-integral matrices consumed by q / qhat (hand-written from functions_transport.Qij_mix):
   Q_values[i, j] = Qij(species_i, n_i, species_j, n_j, l, s, T) for all pairs of the mixture ---- *)
Definition Qmix (sps : list (species A)) (nd : list A) (l s : nat) (T : A) (i j : nat) : A :=
  Qij N U (nth i sps (dummy_species (# 0%Z))) (nth i nd (# 0%Z)) (nth j sps (dummy_species (# 0%Z))) (nth j nd (# 0%Z)) l s T.
End Transport.
