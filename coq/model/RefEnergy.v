(* RefEnergy.v — hand-written executable model of LTE.__get_reference_energies (mixture.py):
   Stewart-Pyatt ionisation-energy lowering dE and the reference energies E0.
   The code builds sorted charge chains per neutral species; the model states the result
   declaratively (each ion refers to the nearest listed lower |charge| stage of the same stoichiometry),
   which is what the sorted chains compute when (stoichiometry, charge) pairs are distinct.
   Tied to the code by the correspondence check on recorded solver iterations (E0, dE arrays). *)
From Coq Require Import ZArith List Bool Arith.
Import ListNotations.
From MPC Require Import Num Species.

Fixpoint stoich_eqb (a b : list (nat * nat)) : bool :=
  match a, b with
  | [], [] => true
  | (e1, c1) :: r1, (e2, c2) :: r2 => Nat.eqb e1 e2 && Nat.eqb c1 c2 && stoich_eqb r1 r2
  | _, _ => false
  end.
Definition atoms {A} (sp : species A) : nat := fold_right (fun ec acc => snd ec + acc) 0 (stoichiometry sp).

Section RefEnergy.
Context {A : Type} (N : Num A) (U : Units A).
Local Notation "x + y" := (nadd N x y). Local Notation "x - y" := (nsub N x y).
Local Notation "x * y" := (nmul N x y). Local Notation "x / y" := (ndiv N x y).
Local Notation "# z" := (nofZ N z) (at level 5).

Definition kT (T : A) : A := k_b U * T.
Definition volume (T P : A) (Ni : list A) : A := sum_list N Ni * kT T / P.
Definition densities (T P : A) (Ni : list A) : list A := let V := volume T P Ni in map (fun x => x / V) Ni.

(* effective charge z* = sum n z^2 / sum n z over positively charged species *)
Definition zsums (sps : list (species A)) (nd : list A) : A * A :=
  fold_left (fun acc sn => let '(s1, s2) := acc in let '(sp, n) := sn in
               if Z.ltb 0 (charge_number sp)
               then (s1 + n * # (charge_number sp), s2 + n * # (Z.pow (charge_number sp) 2))
               else (s1, s2))
            (combine sps nd) (# 0%Z, # 0%Z).
Definition z_star (sps : list (species A)) (nd : list A) : A := let '(s1, s2) := zsums sps nd in s2 / s1.

Definition debye_pow3 (T zs ne : A) : A :=
  nrpow N (epsilon_0 U * kT T / (# 4%Z * npi N * (zs + # 1%Z) * ne * npow N (e_ch U) 2)) (# 3%Z / # 2%Z).

Definition lowering (T zs ne d3 : A) (sp : species A) : A :=
  if Z.ltb 0 (charge_number sp) then
    let ai3 := # 3%Z * # (charge_number sp) / (# 4%Z * npi N * ne) in
    kT T * (nrpow N (ai3 / d3 + # 1%Z) (# 2%Z / # 3%Z) - # 1%Z) / (# 2%Z * (zs + # 1%Z))
  else # 0%Z.

Definition dE_list (T P : A) (sps : list (species A)) (Ni : list A) : list A :=
  let nd := densities T P Ni in
  let zs := z_star sps nd in
  let ne := last nd (# 0%Z) in
  let d3 := debye_pow3 T zs ne in
  map (lowering T zs ne d3) sps.

(* ---- reference energies ---- *)
Definition base_E0 (sp : species A) : A :=
  if Nat.leb 2 (atoms sp) then nopp N (dissociation_energy sp) else # 0%Z.

Definition same_stoich (a b : species A) : bool := stoich_eqb (stoichiometry a) (stoichiometry b).
Definition has_neutral (l : list (species A * A)) (sp : species A) : bool :=
  existsb (fun q => same_stoich (fst q) sp && Z.eqb (charge_number (fst q)) 0) l.

(* the listed stage of the same stoichiometry with the largest charge in [0, z) *)
Definition pred_pos (l : list (species A * A)) (sp : species A) : option (species A * A) :=
  fold_left (fun best q =>
     let z' := charge_number (fst q) in
     if same_stoich (fst q) sp && Z.leb 0 z' && Z.ltb z' (charge_number sp) then
       match best with
       | Some b => if Z.ltb (charge_number (fst b)) z' then Some q else best
       | None => Some q
       end
     else best) l None.
(* the listed stage of the same stoichiometry with the smallest charge in (z, 0] *)
Definition pred_neg (l : list (species A * A)) (sp : species A) : option (species A * A) :=
  fold_left (fun best q =>
     let z' := charge_number (fst q) in
     if same_stoich (fst q) sp && Z.leb z' 0 && Z.ltb (charge_number sp) z' then
       match best with
       | Some b => if Z.ltb z' (charge_number (fst b)) then Some q else best
       | None => Some q
       end
     else best) l None.

Fixpoint E0_of (fuel : nat) (l : list (species A * A)) (spd : species A * A) : A :=
  let sp := fst spd in
  match fuel with
  | O => base_E0 sp
  | S fuel' =>
    if negb (has_neutral l sp) then base_E0 sp
    else if Z.ltb 0 (charge_number sp) then
      match pred_pos l sp with
      | Some p => E0_of fuel' l p + ionisation_energy (fst p) - snd p
      | None => base_E0 sp
      end
    else if Z.ltb (charge_number sp) 0 then
      match pred_neg l sp with
      | Some p => E0_of fuel' l p - ionisation_energy sp + snd spd
      | None => base_E0 sp
      end
    else base_E0 sp
  end.

Definition E0_list (sps : list (species A)) (dE : list A) : list A :=
  let l := combine sps dE in map (E0_of (List.length sps) l) l.

Definition reference_energies (T P : A) (sps : list (species A)) (Ni : list A) : list A * list A :=
  let dE := dE_list T P sps Ni in (E0_list sps dE, dE).
End RefEnergy.
