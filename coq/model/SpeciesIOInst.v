(* The I/O model instantiated at the class tables regenerated from species.py. *)
From Coq Require Import List String ZArith.
Import ListNotations.
From MPC Require Import SpeciesIO GenSpeciesIO.
Open Scope string_scope.
Definition Mono := mkClass "Monatomic" mono_params mono_super_args mono_assigns mono_keys.
Definition Di := mkClass "Diatomic" di_params di_super_args di_assigns di_keys.
Definition Poly := mkClass "Polyatomic" poly_params poly_super_args poly_assigns poly_keys.
Definition Classes := [Mono; Di; Poly].
Definition Construct := construct base_params base_assigns.
Definition FromFile := from_file base_params base_assigns Classes dispatch_table dispatch_default.
(* what a save / load round trip of the object dictionary `o` yields *)
Definition SaveLoad (o : obj) : option (string * obj) := FromFile (file_roundtrip (to_file o)).
Definition class_by_name (nm : string) : option class_spec := find_class nm Classes.
