(* Cache.v — executable model of the LTE object's caching discipline (for C03).
   The mixture caches particle numbers (N cache) and reference energies / lowerings (E cache) and a
   validity flag.  A result is a pure function of the current (species, x0, T, P) exactly when every
   cache it reads was computed at the inputs current at the time of the read; the code is deterministic,
   so such a result is what a freshly constructed mixture returns (trusted; compared bit-for-bit by the
   correspondence check).  Statement bodies are regenerated from the source (gen/GenEffects.v). *)
From Coq Require Import List Bool Arith.
Import ListNotations.

Inductive stmt :=
| ReadN | ReadE | WriteN | WriteE
| SetFlag (b : bool)
| SaveT (slot : nat)                      (* <local> = receiver.T *)
| SetTPert (slot : nat) (up : bool)       (* receiver.T = <local> * (1 +/- delta): through the setter, clears the flag *)
| SetTRestore (slot : nat)                (* receiver.T = <local> *)
| Call (m : nat)
| IfValid (a b : list stmt)               (* if flag: a (returns) else: b *)
| IfParam (a b : list stmt).              (* if <boolean parameter>: a else: b *)

(* temperatures relative to the temperature at entry of the outermost call *)
Inductive tv := TBase | TPert (t : tv) (up : bool).
Fixpoint tv_eqb (a b : tv) : bool :=
  match a, b with
  | TBase, TBase => true
  | TPert a' u, TPert b' v => tv_eqb a' b' && Bool.eqb u v
  | _, _ => false
  end.

(* what a cache was computed from: the current x0 / P and temperature t, or something else (other inputs, or never) *)
Inductive key := KAt (t : tv) | KOther.
Definition key_current (k : key) (t : tv) : bool := match k with KAt t' => tv_eqb t' t | KOther => false end.

Record st := mkSt { cT : tv; valid : bool; nk : key; ek : key }.

Fixpoint slot_get (slots : list (nat * tv)) (k : nat) : option tv :=
  match slots with [] => None | (k', t) :: r => if Nat.eqb k k' then Some t else slot_get r k end.

Section Run.
Variable body : nat -> list stmt.
Variable dt : bool.                (* value of the boolean parameter (DTterms_yn) *)

(* result: final state, whether every cache read so far was current ("clean"), locals *)
Fixpoint run (fuel : nat) (p : list stmt) (s : st) (clean : bool) (slots : list (nat * tv)) {struct fuel}
  : option (st * bool * list (nat * tv)) :=
  match fuel with
  | O => None
  | S fuel' =>
    match p with
    | [] => Some (s, clean, slots)
    | i :: rest =>
      match i with
      | ReadN => run fuel' rest s (clean && key_current (nk s) (cT s)) slots
      | ReadE => run fuel' rest s (clean && key_current (ek s) (cT s)) slots
      | WriteN => run fuel' rest (mkSt (cT s) (valid s) (KAt (cT s)) (ek s)) clean slots
      | WriteE => run fuel' rest (mkSt (cT s) (valid s) (nk s) (KAt (cT s))) clean slots
      | SetFlag b => run fuel' rest (mkSt (cT s) b (nk s) (ek s)) clean slots
      | SaveT k => run fuel' rest s clean ((k, cT s) :: slots)
      | SetTPert k up =>
        match slot_get slots k with
        | None => None
        | Some t => run fuel' rest (mkSt (TPert t up) false (nk s) (ek s)) clean slots
        end
      | SetTRestore k =>
        match slot_get slots k with
        | None => None
        | Some t => run fuel' rest (mkSt t false (nk s) (ek s)) clean slots
        end
      | Call m =>
        match run fuel' (body m) s clean [] with
        | None => None
        | Some (s', c', _) => run fuel' rest s' c' slots
        end
      | IfValid a b => if valid s then run fuel' a s clean slots else run fuel' (b ++ rest) s clean slots
      | IfParam a b => run fuel' ((if dt then a else b) ++ rest) s clean slots
      end
    end
  end.
End Run.

(* ---- history level: what is known between calls ---- *)
Record hs := mkHs { hvalid : bool; hn : bool; he : bool }.   (* flag; N cache / E cache computed at the current inputs *)
Definition h_init : hs := mkHs false false false.            (* fresh object *)
Definition st_of (h : hs) : st :=
  mkSt TBase (hvalid h) (if hn h then KAt TBase else KOther) (if he h then KAt TBase else KOther).
Definition hs_of (s : st) : hs := mkHs (valid s) (key_current (nk s) TBase) (key_current (ek s) TBase).

Inductive op := SetT | SetP | SetX0 | Calc (m : nat) (dt : bool).

Record outcome := mkOut { o_clean : bool; o_inputs_preserved : bool }.

Definition FUEL : nat := 300.

Section History.
Variable body : nat -> list stmt.
(* an assignment to T, P or x0 clears the flag; the caches then belong to other inputs (conservatively, even if
   the same value is assigned again) *)
Definition hstep (h : hs) (o : op) : option (hs * option outcome) :=
  match o with
  | SetT | SetP | SetX0 => Some (mkHs false false false, None)
  | Calc m dt =>
    match run body dt FUEL (body m) (st_of h) true [] with
    | None => None
    | Some (s', c, _) => Some (hs_of s', Some (mkOut c (tv_eqb (cT s') TBase)))
    end
  end.

Fixpoint hrun (h : hs) (ops : list op) : option (hs * list outcome) :=
  match ops with
  | [] => Some (h, [])
  | o :: r =>
    match hstep h o with
    | None => None
    | Some (h', out) =>
      match hrun h' r with
      | None => None
      | Some (h'', outs) => Some (h'', match out with Some x => x :: outs | None => outs end)
      end
    end
  end.
End History.
