"""finalforms.py — the right-hand sides and final formulae of functions_transport.viscosity / DTi / Dij /
electrical_conductivity, regenerated as Gallina definitions (index form: vectors are functions nat -> A).

Fail-closed: each function must consist of exactly the expected statements (compared as `ast.unparse` text) around the
captured expressions; the captured expressions may only use the constructs of `vex`.  Anything else raises Unsupported,
and gen_all writes the stub.  The linear solves themselves are not modelled (their results are parameters b0 / a0 / c0i / De).
"""
import ast
from fractions import Fraction

from py2coq import Unsupported, a_of_fraction


class FF:
    def __init__(self, t):
        self.t = t

    def fail(self, node, what):
        raise Unsupported(self.t.short, node, "final formulae: " + what)

    # env: name -> ("scalar", coq) | ("vec", coq) | ("nat", coq) | ("inline", ast) | ("rows", {k: coq vec}) | ("cells", {(k, name): coq})
    def vex(self, n, env, idx):
        if isinstance(n, ast.Constant) and not isinstance(n.value, bool):
            if isinstance(n.value, int):
                return f"(nofZ N {n.value}%Z)" if n.value >= 0 else f"(nofZ N ({n.value})%Z)"
            if isinstance(n.value, float):
                seg = ast.get_source_segment(self.t.src, n) or repr(n.value)
                return a_of_fraction(Fraction(seg.replace("_", "")))
            self.fail(n, f"constant {n.value!r}")
        if isinstance(n, ast.UnaryOp) and isinstance(n.op, ast.USub):
            return f"(nopp N {self.vex(n.operand, env, idx)})"
        if isinstance(n, ast.BinOp):
            if isinstance(n.op, ast.Pow):
                if isinstance(n.right, ast.Constant) and isinstance(n.right.value, int) and 0 <= n.right.value <= 8:
                    return f"(npow N {self.vex(n.left, env, idx)} {n.right.value})"
                self.fail(n, "power")
            f = {ast.Add: "nadd", ast.Sub: "nsub", ast.Mult: "nmul", ast.Div: "ndiv"}.get(type(n.op))
            if f is None:
                self.fail(n, "operator " + type(n.op).__name__)
            return f"({f} N {self.vex(n.left, env, idx)} {self.vex(n.right, env, idx)})"
        if isinstance(n, ast.Attribute) and isinstance(n.value, ast.Name):
            key = f"{n.value.id}.{n.attr}"
            table = {"np.pi": "(npi N)", "u.k_b": "(k_b U)", "u.e": "(e_ch U)", "mixture.T": "T"}
            if key in table:
                return table[key]
            self.fail(n, "attribute " + key)
        if isinstance(n, ast.Call):
            fn = ast.unparse(n.func)
            if fn == "np.sqrt" and len(n.args) == 1 and not n.keywords:
                return f"(nsqrt N {self.vex(n.args[0], env, idx)})"
            if fn == "np.where" and len(n.args) == 3 and not n.keywords and isinstance(n.args[0], ast.Compare) \
                    and len(n.args[0].ops) == 1 and isinstance(n.args[0].ops[0], ast.Lt) \
                    and ast.unparse(n.args[1]) == "np.zeros(nb_species)":
                c = n.args[0]
                return (f"(if nltb N {self.vex(c.left, env, idx)} {self.vex(c.comparators[0], env, idx)} "
                        f"then (nofZ N 0%Z) else {self.vex(n.args[2], env, idx)})")
            if fn == "delta" and len(n.args) == 2 and not n.keywords and all(isinstance(a, ast.Name) for a in n.args):
                a, b = (env.get(x.id) for x in n.args)
                if a and b and a[0] == "nat" and b[0] == "nat":
                    return f"(delta N {a[1]} {b[1]})"
            self.fail(n, "call " + ast.unparse(n))
        if isinstance(n, ast.Name):
            e = env.get(n.id)
            if e is None:
                self.fail(n, "unknown name " + n.id)
            if e[0] == "scalar":
                return e[1]
            if e[0] == "vec":
                if idx is None:
                    self.fail(n, "vector used where a number is expected")
                return f"({e[1]} {idx})"
            if e[0] == "inline":
                return self.vex(e[1], env, idx)
            self.fail(n, f"name {n.id} of kind {e[0]}")
        if isinstance(n, ast.Subscript) and isinstance(n.value, ast.Name):
            e = env.get(n.value.id)
            s = n.slice
            if e and e[0] == "vec" and isinstance(s, ast.Name) and env.get(s.id, ("",))[0] == "nat":
                return f"({e[1]} {env[s.id][1]})"
            if e and e[0] == "rows" and isinstance(s, ast.Constant) and s.value in e[1]:
                if idx is None:
                    self.fail(n, "vector used where a number is expected")
                return f"({e[1][s.value]} {idx})"
            if e and e[0] == "cells" and isinstance(s, ast.Tuple) and len(s.elts) == 2 and isinstance(s.elts[0], ast.Constant) \
                    and isinstance(s.elts[1], ast.Name) and (s.elts[0].value, s.elts[1].id) in e[1]:
                return e[1][(s.elts[0].value, s.elts[1].id)]
        self.fail(n, "expression " + ast.unparse(n))

    def body(self, name):
        fn = self.t.find(name)
        if [a.arg for a in fn.args.args] != ["mixture"]:
            self.fail(fn, f"signature of {name}")
        return fn, [s for s in fn.body if not self.t.is_doc(s)]

    def expect(self, stmts, k, text):
        if k >= len(stmts) or ast.unparse(stmts[k]) != text:
            got = ast.unparse(stmts[k]) if k < len(stmts) else "<missing>"
            self.fail(stmts[k] if k < len(stmts) else stmts[-1], f"expected `{text}`, found `{got[:120]}`")

    def assign_to(self, st, target_text):
        if not (isinstance(st, ast.Assign) and len(st.targets) == 1 and ast.unparse(st.targets[0]) == target_text):
            self.fail(st, f"expected an assignment to {target_text}")
        return st.value

    COMMON = ["nb_species = len(mixture.species)", "number_densities = mixture.calculate_composition()",
              "masses = np.array([sp.molar_mass / u.N_a for sp in mixture.species])"]

    def sum_of(self, n, env, var):
        """np.sum(<vector expression>) -> sum_left over seq 0 nb"""
        if not (isinstance(n, ast.Call) and ast.unparse(n.func) == "np.sum" and len(n.args) == 1 and not n.keywords):
            self.fail(n, "expected np.sum(...)")
        return f"(sum_left N (map (fun {var} => {self.vex(n.args[0], env, var)}) (seq 0 nb)))"

    def viscosity(self):
        fn, st = self.body("viscosity")
        for k, txt in enumerate(self.COMMON + ["qqhat = qhat(mixture)", "b_vec = np.zeros(2 * nb_species)"]):
            self.expect(st, k, txt)
        rhs = self.assign_to(st[5], "b_vec[:nb_species]")
        self.expect(st, 6, "bflat = np.linalg.solve(qqhat, b_vec)")
        self.expect(st, 7, "bip = bflat.reshape(2, nb_species)")
        if len(st) != 9 or not isinstance(st[8], ast.Return):
            self.fail(fn, "viscosity: unexpected statements")
        env = {"number_densities": ("vec", "nd"), "masses": ("vec", "masses"), "bip": ("rows", {0: "b0"})}
        ret = st[8].value
        # <scalar factors> * np.sum(...)
        if not (isinstance(ret, ast.BinOp) and isinstance(ret.op, ast.Mult)):
            self.fail(ret, "viscosity: return is not a product")
        out = [f"Definition gen_visc_rhs0 (T : A) (masses nd : nat -> A) (i : nat) : A :=\n  {self.vex(rhs, env, 'i')}.\n",
               f"Definition gen_visc_value (T : A) (nd : nat -> A) (nb : nat) (b0 : nat -> A) : A :=\n"
               f"  (nmul N {self.vex(ret.left, env, None)} {self.sum_of(ret.right, env, 'i')}).\n"]
        return out

    def dti(self):
        fn, st = self.body("DTi")
        for k, txt in enumerate(self.COMMON + ["qq = q(mixture)", "b_vec = np.zeros(4 * nb_species)"]):
            self.expect(st, k, txt)
        rhs = self.assign_to(st[5], "b_vec[nb_species:2 * nb_species]")
        self.expect(st, 6, "aflat = np.linalg.solve(qq, b_vec)")
        self.expect(st, 7, "aip = aflat.reshape(4, nb_species)")
        if len(st) != 9 or not isinstance(st[8], ast.Return):
            self.fail(fn, "DTi: unexpected statements")
        env = {"number_densities": ("vec", "nd"), "masses": ("vec", "masses"), "aip": ("rows", {0: "a0"})}
        return [f"Definition gen_DTi_rhs1 (nd : nat -> A) (i : nat) : A :=\n  {self.vex(rhs, env, 'i')}.\n",
                f"Definition gen_DTi_value (T : A) (masses nd a0 : nat -> A) (i : nat) : A :=\n  {self.vex(st[8].value, env, 'i')}.\n"]

    def dij(self):
        fn, st = self.body("Dij")
        for k, txt in enumerate(self.COMMON + ["rho = mixture.calculate_density()", "n_tot = np.sum(number_densities)",
                                               "diffusion_matrix = np.zeros((nb_species, nb_species))", "qq = q(mixture)",
                                               "lu_piv_q = scl.lu_factor(qq)", "b_vec = np.zeros(4 * nb_species)"]):
            self.expect(st, k, txt)
        if len(st) != 11 or ast.unparse(st[10]) != "return diffusion_matrix":
            self.fail(fn, "Dij: unexpected statements")
        lo = st[9]
        if not (isinstance(lo, ast.For) and ast.unparse(lo.target) == "i" and ast.unparse(lo.iter) == "range(nb_species)" and not lo.orelse
                and len(lo.body) == 1 and isinstance(lo.body[0], ast.For) and ast.unparse(lo.body[0].target) == "j"
                and ast.unparse(lo.body[0].iter) == "range(nb_species)" and not lo.body[0].orelse):
            self.fail(lo, "Dij: expected the double loop over i, j")
        b = lo.body[0].body
        if len(b) != 5:
            self.fail(lo, "Dij: loop body")
        dv = self.assign_to(b[0], "dij")
        if not (isinstance(dv, ast.Call) and ast.unparse(dv.func) == "np.array" and len(dv.args) == 1 and isinstance(dv.args[0], ast.ListComp)
                and len(dv.args[0].generators) == 1 and ast.unparse(dv.args[0].generators[0].target) == "h"
                and ast.unparse(dv.args[0].generators[0].iter) == "range(0, nb_species)" and not dv.args[0].generators[0].ifs):
            self.fail(b[0], "Dij: dij is not a comprehension over h in range(0, nb_species)")
        rhs = self.assign_to(b[1], "b_vec[:nb_species]")
        self.expect(b, 2, "cflat = scl.lu_solve(lu_piv_q, b_vec)")
        self.expect(b, 3, "cip = cflat.reshape(4, nb_species)")
        val = self.assign_to(b[4], "diffusion_matrix[i, j]")
        nat = {"i": ("nat", "i"), "j": ("nat", "j"), "h": ("nat", "h")}
        env_r = dict(nat, dij=("inline", dv.args[0].elt))
        env_v = dict(nat, number_densities=("vec", "nd"), masses=("vec", "masses"), rho=("scalar", "rho"), n_tot=("scalar", "ntot"),
                     cip=("cells", {(0, "i"): "c0i"}))
        return [f"Definition gen_Dij_rhs (i j h : nat) : A :=\n  {self.vex(rhs, env_r, None)}.\n",
                f"Definition gen_Dij_value (rho ntot T : A) (masses nd : nat -> A) (i j : nat) (c0i : A) : A :=\n  {self.vex(val, env_v, None)}.\n"]

    def sigma(self):
        fn, st = self.body("electrical_conductivity")
        for k, txt in enumerate(["charge_numbers = np.array([sp.charge_number for sp in mixture.species])",
                                 "number_densities = mixture.calculate_composition()",
                                 "masses = np.array([sp.molar_mass / u.N_a for sp in mixture.species])",
                                 "rho = mixture.calculate_density()", "D1 = Dij(mixture)[-1, :]", "n_tot = np.sum(number_densities)",
                                 "sum_val = 0.0"]):
            self.expect(st, k, txt)
        if len(st) != 10:
            self.fail(fn, "electrical_conductivity: unexpected statements")
        lo = st[7]
        if not (isinstance(lo, ast.For) and not lo.orelse and len(lo.body) == 1 and isinstance(lo.body[0], ast.AugAssign)
                and isinstance(lo.body[0].op, ast.Add) and ast.unparse(lo.body[0].target) == "sum_val"
                and isinstance(lo.iter, ast.Call) and ast.unparse(lo.iter.func) == "zip" and isinstance(lo.target, ast.Tuple)
                and all(isinstance(x, ast.Name) for x in lo.target.elts) and all(isinstance(x, ast.Name) for x in lo.iter.args)
                and len(lo.target.elts) == len(lo.iter.args)):
            self.fail(lo, "electrical_conductivity: expected the accumulation loop over zip(...)")
        vecs = {"charge_numbers": "charges", "D1": "De", "masses": "masses", "number_densities": "nd"}
        env = {"rho": ("scalar", "rho"), "n_tot": ("scalar", "ntot")}
        for tgt, src in zip(lo.target.elts, lo.iter.args):
            if src.id not in vecs or tgt.id in env:
                self.fail(lo, "electrical_conductivity: zip over " + src.id)
            env[tgt.id] = ("scalar", f"({vecs[src.id]} j)")
        term = self.vex(lo.body[0].value, env, None)
        pre = self.assign_to(st[8], "pre_mult")
        self.expect(st, 9, "return pre_mult * sum_val")
        return [f"Definition gen_sigma_value (rho ntot T : A) (masses nd charges : nat -> A) (nb : nat) (De : nat -> A) : A :=\n"
                f"  let sum_val := (sum_left N (map (fun j => {term}) (seq 0 nb))) in\n"
                f"  let pre_mult := {self.vex(pre, env, None)} in\n  (nmul N pre_mult sum_val).\n"]

    def kappa(self):
        fn = self.t.find("thermal_conductivity")
        if [a.arg for a in fn.args.args] != ["mixture", "rel_delta_T", "DTterms_yn", "ni_limit"]:
            self.fail(fn, "signature of thermal_conductivity")
        st = [s for s in fn.body if not self.t.is_doc(s)]
        if len(st) != 26:
            self.fail(fn, f"thermal_conductivity: {len(st)} statements, expected 26")
        for k, txt in enumerate(self.COMMON + ["n_tot = np.sum(number_densities)", "rho = mixture.calculate_density()",
                                               "hv = mixture.calculate_species_enthalpies()"]):
            self.expect(st, k, txt)
        amm = self.assign_to(st[6], "average_molar_mass")
        hv2 = self.assign_to(st[7], "hv")
        self.expect(st, 8, "qq = q(mixture)")
        self.expect(st, 9, "b_vec = np.zeros(4 * nb_species)")
        rhs = self.assign_to(st[10], "b_vec[nb_species:2 * nb_species]")
        self.expect(st, 11, "aflat = np.linalg.solve(qq, b_vec)")
        self.expect(st, 12, "aip = aflat.reshape(4, nb_species)")
        kd = self.assign_to(st[13], "k_dash")
        base = {"number_densities": ("vec", "nd"), "masses": ("vec", "masses"), "rho": ("scalar", "rho"), "n_tot": ("scalar", "ntot"),
                "rel_delta_T": ("scalar", "delta"), "ni_limit": ("scalar", "ni_limit"), "Tval": ("scalar", "T")}
        # hv (raw species enthalpies h) rescaled
        env_h = dict(base, hv=("vec", "h"), average_molar_mass=("inline", amm))
        # k' = <factors> * np.sum(...)
        env_k = dict(base, aip=("rows", {1: "a1"}))
        if not (isinstance(kd, ast.BinOp) and isinstance(kd.op, ast.Mult)):
            self.fail(kd, "k_dash is not a product")
        # if DTterms_yn: locDTi = DTi(mixture); kdt = np.sum(...)  else: kdt = 0
        i1 = st[14]
        if not (isinstance(i1, ast.If) and ast.unparse(i1.test) == "DTterms_yn" and len(i1.body) == 2 and len(i1.orelse) == 1
                and ast.unparse(i1.body[0]) == "locDTi = DTi(mixture)" and ast.unparse(i1.orelse[0]) == "kdt = 0"):
            self.fail(i1, "thermal_conductivity: thermal-diffusion branch")
        kdt = self.assign_to(i1.body[1], "kdt")
        env_d = dict(base, hv=("vec", "hv"), locDTi=("vec", "DT"), dxdT=("vec", "dxdT"))
        self.expect(st, 15, "Tval = mixture.T")
        tr = st[16]
        if not (isinstance(tr, ast.Try) and not tr.handlers and not tr.orelse and len(tr.body) == 4 and len(tr.finalbody) == 1
                and ast.unparse(tr.finalbody[0]) == "mixture.T = Tval"
                and ast.unparse(tr.body[1]) == "n_positive = mixture.calculate_composition()"
                and ast.unparse(tr.body[3]) == "n_negative = mixture.calculate_composition()"):
            self.fail(tr, "thermal_conductivity: perturbation block")
        tpos = self.assign_to(tr.body[0], "mixture.T")
        tneg = self.assign_to(tr.body[2], "mixture.T")
        xp = self.assign_to(st[17], "x_positive")
        xn = self.assign_to(st[18], "x_negative")
        dx = self.assign_to(st[19], "dxdT")
        self.expect(st, 20, "locDij = Dij(mixture)")
        self.expect(st, 21, "krxn_enth = 0.0")
        lo = st[22]
        if not (isinstance(lo, ast.For) and ast.unparse(lo.target) == "j" and ast.unparse(lo.iter) == "range(nb_species)" and not lo.orelse
                and len(lo.body) == 1 and isinstance(lo.body[0], ast.For) and ast.unparse(lo.body[0].target) == "i"
                and ast.unparse(lo.body[0].iter) == "range(nb_species)" and not lo.body[0].orelse and len(lo.body[0].body) == 1
                and isinstance(lo.body[0].body[0], ast.AugAssign) and isinstance(lo.body[0].body[0].op, ast.Add)
                and ast.unparse(lo.body[0].body[0].target) == "krxn_enth"):
            self.fail(lo, "thermal_conductivity: reaction double loop")
        term = lo.body[0].body[0].value
        if not (isinstance(st[23], ast.AugAssign) and isinstance(st[23].op, ast.Mult) and ast.unparse(st[23].target) == "krxn_enth"):
            self.fail(st[23], "thermal_conductivity: reaction prefactor")
        i2 = st[24]
        if not (isinstance(i2, ast.If) and ast.unparse(i2.test) == "DTterms_yn" and len(i2.body) == 2 and len(i2.orelse) == 1
                and ast.unparse(i2.orelse[0]) == "krxn_therm = 0.0"):
            self.fail(i2, "thermal_conductivity: second thermal-diffusion branch")
        filt = self.assign_to(i2.body[0], "dxdTfilt")
        kth = self.assign_to(i2.body[1], "krxn_therm")
        self.expect(st, 25, "return k_dash + kdt + krxn_enth + krxn_therm")
        # sums of the two perturbed compositions: np.sum(n_positive) -> sum over the index
        nat = {"i": ("nat", "i"), "j": ("nat", "j")}
        env_x = dict(base, n_positive=("vec", "npos"), n_negative=("vec", "nneg"))

        def frac(e, who):
            if not (isinstance(e, ast.BinOp) and isinstance(e.op, ast.Div) and isinstance(e.left, ast.Name) and e.left.id == who):
                self.fail(e, "mole fractions of the perturbed compositions")
            return f"(ndiv N ({env_x[who][1]} j) {self.sum_of(e.right, env_x, 'i')})"
        env_dx = dict(base, x_positive=("scalar", frac(xp, "n_positive")), x_negative=("scalar", frac(xn, "n_negative")))
        env_dx["mixture.T"] = None
        env_e = dict(base, **nat, hv=("vec", "hv"), dxdT=("vec", "dxdT"), locDij=("mat", "D"))
        # locDij[i, j]
        env_e["locDij"] = ("cells", {})
        term_txt = self.vex_with_matrix(term, env_e)
        env_t = dict(base, locDTi=("vec", "DT"), dxdT=("vec", "dxdT"), dxdTfilt=("inline", filt))
        if not (isinstance(kth, ast.BinOp) and isinstance(kth.op, ast.Mult)):
            self.fail(kth, "krxn_therm is not a product")
        out = [
            f"Definition gen_kappa_rhs1 (nd : nat -> A) (i : nat) : A :=\n  {self.vex(rhs, base, 'i')}.\n",
            f"Definition gen_hv_rescaled (rho ntot : A) (masses h : nat -> A) (i : nat) : A :=\n  {self.vex(hv2, env_h, 'i')}.\n",
            f"Definition gen_kdash_value (T : A) (masses nd : nat -> A) (nb : nat) (a1 : nat -> A) : A :=\n"
            f"  (nmul N {self.vex(kd.left, env_k, None)} {self.sum_of(kd.right, env_k, 'i')}).\n",
            f"Definition gen_kdt_value (T : A) (nb : nat) (hv DT : nat -> A) : A :=\n  {self.sum_of(kdt, env_d, 'i')}.\n",
            f"Definition gen_kappa_T_pos (T delta : A) : A := {self.vex(tpos, base, None)}.\n",
            f"Definition gen_kappa_T_neg (T delta : A) : A := {self.vex(tneg, base, None)}.\n",
            f"Definition gen_dxdT_value (T delta : A) (nb : nat) (npos nneg : nat -> A) (j : nat) : A :=\n  {self.vex(dx, env_dx, None)}.\n",
            # the running accumulator of the double loop, rendered as a sum over j of sums over i (equal over R)
            f"Definition gen_krxn_enth_value (rho ntot : A) (masses hv dxdT : nat -> A) (D : nat -> nat -> A) (nb : nat) : A :=\n"
            f"  (nmul N (sum_left N (map (fun j => (sum_left N (map (fun i => {term_txt}) (seq 0 nb)))) (seq 0 nb))) {self.vex(st[23].value, base, None)}).\n",
            f"Definition gen_krxn_therm_value (ntot T ni_limit : A) (masses nd DT dxdT : nat -> A) (nb : nat) : A :=\n"
            f"  (nmul N {self.vex(kth.left, env_t, None)} {self.sum_of(kth.right, env_t, 'i')}).\n",
            "Definition gen_kappa_total (dt_terms : bool) (rho ntot T ni_limit : A) (masses nd hv DT dxdT : nat -> A) (D : nat -> nat -> A)\n"
            "           (nb : nat) (kdash : A) : A :=\n"
            "  let kdt := if dt_terms then gen_kdt_value T nb hv DT else (nofZ N 0%Z) in\n"
            "  let krxn_enth := gen_krxn_enth_value rho ntot masses hv dxdT D nb in\n"
            "  let krxn_therm := if dt_terms then gen_krxn_therm_value ntot T ni_limit masses nd DT dxdT nb else (nofZ N 0%Z) in\n"
            "  (nadd N (nadd N (nadd N kdash kdt) krxn_enth) krxn_therm).\n"]
        return out

    def vex_with_matrix(self, n, env):
        """vex for the reaction term: additionally locDij[i, j] -> (D i j)"""
        outer = self

        class M(ast.NodeTransformer):
            def visit_Subscript(self, node):
                if isinstance(node.value, ast.Name) and node.value.id == "locDij" and isinstance(node.slice, ast.Tuple) \
                        and [ast.unparse(e) for e in node.slice.elts] == ["i", "j"]:
                    return ast.Name(id="__Dij__", ctx=ast.Load())
                return self.generic_visit(node)
        import copy
        n2 = M().visit(copy.deepcopy(n))
        env2 = dict(env)
        env2["__Dij__"] = ("scalar", "(D i j)")
        return self.vex(n2, env2, None)

    # ---- the assembly of q / qhat: which collision integrals each block receives, the mass-ratio transposes, the block layout ----
    ALLQ = ["Q11", "Q12", "Q13", "Q14", "Q15", "Q16", "Q17", "Q22", "Q23", "Q24", "Q25", "Q26", "Q33", "Q34", "Q35", "Q44"]

    def assembly(self, fname, prefix, order):
        fn, st = self.body(fname)
        self.expect(st, 0, "nb_species = len(mixture.species)")
        self.expect(st, 1, "number_densities = mixture.calculate_composition()")
        if ast.unparse(st[2]) not in ("masses = np.array([species.molar_mass / u.N_a for species in mixture.species])", self.COMMON[2]):
            self.fail(st[2], "masses")
        qn, terms, k = {}, {}, 3
        MR = "masses[np.newaxis, :] / masses[:, np.newaxis]"
        mr = "(ndiv N (masses j) (masses i))"
        while k < len(st) - 2:
            a = st[k]
            if not (isinstance(a, ast.Assign) and len(a.targets) == 1 and isinstance(a.targets[0], ast.Name)):
                self.fail(a, f"{fname}: unexpected statement")
            tgt, v = a.targets[0].id, a.value
            if tgt in qn or tgt in terms:
                self.fail(a, f"{fname}: {tgt} assigned twice")
            if isinstance(v, ast.Call) and ast.unparse(v.func) == "Qij_mix":
                # Qls = Qij_mix(mixture, l, s): the name must say which integral it is
                if not (len(v.args) == 3 and not v.keywords and ast.unparse(v.args[0]) == "mixture"
                        and all(isinstance(x, ast.Constant) and isinstance(x.value, int) for x in v.args[1:])
                        and tgt == f"Q{v.args[1].value}{v.args[2].value}" and tgt in self.ALLQ):
                    self.fail(a, f"{fname}: collision-integral matrix {ast.unparse(a)}")
                qn[tgt] = f"I{tgt[1:]}"
            elif isinstance(v, ast.Call) and isinstance(v.func, ast.Name) and v.func.id == f"_{tgt}_jit" and tgt.startswith(prefix):
                args = [ast.unparse(x) for x in v.args]
                if v.keywords or args[-3:] != ["masses", "nb_species", "number_densities"] or any(x not in qn for x in args[:-3]):
                    self.fail(a, f"{fname}: arguments of {tgt}")
                terms[tgt] = f"({tgt} {' '.join(qn[x] for x in args[:-3])} masses nb nd i j)"   # defined in the same section: N is implicit there
            elif tgt == "mass_ratio" and ast.unparse(v) == MR:
                terms[tgt] = mr
            elif isinstance(v, ast.BinOp) and isinstance(v.op, ast.Mult) and isinstance(v.right, ast.Name) and v.right.id in terms \
                    and tgt.startswith(prefix):
                left = v.left
                power = 1
                if isinstance(left, ast.BinOp) and isinstance(left.op, ast.Pow) and isinstance(left.right, ast.Constant) \
                        and isinstance(left.right.value, int) and 1 <= left.right.value <= 4:
                    power, left = left.right.value, left.left
                if not ((isinstance(left, ast.Name) and left.id == "mass_ratio" and "mass_ratio" in terms) or ast.unparse(left) == MR):
                    self.fail(a, f"{fname}: transpose {ast.unparse(a)}")
                fac = mr if power == 1 else f"(npow N {mr} {power})"
                terms[tgt] = f"(nmul N {fac} {terms[v.right.id]})"
            else:
                self.fail(a, f"{fname}: unexpected statement {ast.unparse(a)[:80]}")
            k += 1
        blk = self.assign_to(st[-2], "qq")
        self.expect(st, len(st) - 1, "return qq")
        if not (isinstance(blk, ast.Call) and ast.unparse(blk.func) == "np.block" and len(blk.args) == 1 and isinstance(blk.args[0], ast.List)
                and len(blk.args[0].elts) == order and all(isinstance(r, ast.List) and len(r.elts) == order for r in blk.args[0].elts)):
            self.fail(blk, f"{fname}: np.block layout")
        rows = []
        for r, row in enumerate(blk.args[0].elts):
            for c, e in enumerate(row.elts):
                if not (isinstance(e, ast.Name) and e.id in terms and e.id != "mass_ratio"):
                    self.fail(e, f"{fname}: block entry")
                rows.append(f"  | {r}%nat, {c}%nat => {terms[e.id]}")
        names = [x for x in self.ALLQ if x in qn]
        params = " ".join(f"(I{x[1:]} : nat -> nat -> A)" for x in names)
        return [f"Definition gen_{fname}block {params} (masses : nat -> A) (nb : nat) (nd : nat -> A) (a b i j : nat) : A :=\n"
                f"  match a, b with\n" + "\n".join(rows) + "\n  | _, _ => (nofZ N 0%Z)\n  end.\n"]

    def all(self):
        return self.viscosity() + self.dti() + self.dij() + self.sigma() + self.kappa() + self.assembly("q", "q", 4) + self.assembly("qhat", "qhat", 2)
