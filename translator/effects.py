"""effects.py — fail-closed extraction of cache/flag/temperature *effect summaries* of the LTE methods and of
the functions that receive a mixture (for C03).  Output: coq/gen/GenEffects.v.

For each function the ordered list of effects on the receiver's private state is emitted:
  ReadN / ReadE        load of __Ni / (__E0 | __dE)
  WriteN / WriteE      store to them
  SetFlag b            __isLTE = b
  SaveT k              <local k> = receiver.T        (only form in which T may be saved)
  SetTPert k up        receiver.T = <k> * (1 +/- <name>)   (goes through the setter: clears the flag)
  SetTRestore k        receiver.T = <k>
  Call m               call of another summarised function with the same receiver
  IfValid a b          `if receiver.__isLTE: <a; return>` followed by b (the rest of the function)
  IfParam a b          `if <boolean parameter>:` a `else:` b
Loops are flattened (body effects once, in order): recorded as a modelling assumption (bodies that touch the
caches run at least once).  Anything else that could touch shared state is refused."""
from __future__ import annotations

import ast
import os

from py2coq import Unsupported

PRIV_N = {"__Ni", "_LTE__Ni"}
PRIV_E = {"__E0", "__dE", "_LTE__E0", "_LTE__dE"}
PRIV_FLAG = {"__isLTE", "_LTE__isLTE"}
INPUT_ATTRS = {"T", "P", "x0", "species", "gfe_initial_particles", "gfe_rtol", "gfe_max_iter",
               "__T", "__P", "__x0", "__species", "_verif_trace", "_verif_success"}
KNOWN_MODULES = {"np", "numpy", "u", "scl", "warnings", "logging", "functions_transport", "functions_radiation",
                 "_sp", "constants", "math", "os"}
MUTATORS = {"append", "extend", "update", "setdefault", "pop", "clear", "insert", "remove", "add", "popitem", "sort", "fill",
            "__setitem__"}


class FnInfo:
    def __init__(self, idx, name, short, node, recv, public=False):
        self.idx, self.name, self.short, self.node, self.recv, self.public = idx, name, short, node, recv, public


class Extractor:
    def __init__(self, repo):
        self.repo = repo
        self.fns: dict[str, FnInfo] = {}
        self.assumed_loops = []
        self.setter_ok = {}

    def fail(self, short, node, what):
        raise Unsupported(short, node, what)

    def load(self):
        mpath = os.path.join(self.repo, "src/minplascalc/mixture.py")
        tpath = os.path.join(self.repo, "src/minplascalc/functions_transport.py")
        rpath = os.path.join(self.repo, "src/minplascalc/functions_radiation.py")
        mt = ast.parse(open(mpath).read())
        lte = next((n for n in mt.body if isinstance(n, ast.ClassDef) and n.name == "LTE"), None)
        if lte is None:
            self.fail("mixture.py", mt, "class LTE missing")
        self.lte = lte
        idx = 0
        public = ["calculate_composition", "calculate_density", "calculate_species_enthalpies", "calculate_enthalpy",
                  "calculate_heat_capacity", "calculate_viscosity", "calculate_thermal_conductivity",
                  "calculate_electrical_conductivity", "calculate_total_emission_coefficient"]
        for n in lte.body:
            if isinstance(n, ast.FunctionDef) and not n.decorator_list and not (n.name.startswith("__") and n.name.endswith("__")):
                self.fns[n.name] = FnInfo(idx, n.name, "mixture.py", n, "self", public=n.name in public)
                idx += 1
        for p in public:
            if p not in self.fns:
                self.fail("mixture.py", lte, f"public method {p} missing")
        tt = ast.parse(open(tpath).read())
        for n in tt.body:
            if isinstance(n, ast.FunctionDef) and n.args.args and n.args.args[0].arg == "mixture":
                self.fns["ft." + n.name] = FnInfo(idx, "ft_" + n.name, "functions_transport.py", n, "mixture")
                idx += 1
        rt = ast.parse(open(rpath).read())
        for n in rt.body:
            if isinstance(n, ast.FunctionDef) and n.args.args and n.args.args[0].arg in ("mix", "mixture"):
                self.fns["fr." + n.name] = FnInfo(idx, "fr_" + n.name, "functions_radiation.py", n, n.args.args[0].arg)
                idx += 1
        # module-level mutable state in the three modules must not be written from functions: checked per function below
        self.check_setters()
        self.check_init()

    # ---- property setters: each must clear the flag on every non-raising path -------------------------------------
    def check_setters(self):
        for prop in ("T", "P", "x0"):
            st = None
            for n in self.lte.body:
                if isinstance(n, ast.FunctionDef) and n.name == prop and any(
                        isinstance(d, ast.Attribute) and d.attr == "setter" for d in n.decorator_list):
                    st = n
            if st is None:
                self.fail("mixture.py", self.lte, f"setter of {prop} missing")
            if not self.clears_flag(st.body):
                self.fail("mixture.py", st, f"setter of {prop} does not clear the composition flag on every path")
            stores = [ast.unparse(t) for n in ast.walk(st) if isinstance(n, ast.Assign) for t in n.targets]
            for s in stores:
                if s not in (f"self.__{prop}", "self.__isLTE"):
                    self.fail("mixture.py", st, f"setter of {prop} writes {s}")
            # the property getter must return the stored field
            gt = next((n for n in self.lte.body if isinstance(n, ast.FunctionDef) and n.name == prop and any(
                isinstance(d, ast.Name) and d.id == "property" for d in n.decorator_list)), None)
            if gt is None or ast.unparse([s for s in gt.body if not isinstance(s, ast.Expr)][0]) != f"return self.__{prop}":
                self.fail("mixture.py", self.lte, f"getter of {prop} is not `return self.__{prop}`")

    def clears_flag(self, stmts):
        """every path through stmts that does not raise executes self.__isLTE = False"""
        for st in stmts:
            if isinstance(st, ast.Assign) and ast.unparse(st.targets[0]) == "self.__isLTE" and \
                    isinstance(st.value, ast.Constant) and st.value.value is False:
                return True
            if isinstance(st, ast.If):
                a = self.clears_flag(st.body) or self.raises(st.body)
                b = self.clears_flag(st.orelse) or self.raises(st.orelse)
                if a and b and (self.clears_flag(st.body) or self.clears_flag(st.orelse)):
                    return True
        return False

    @staticmethod
    def raises(stmts):
        return bool(stmts) and isinstance(stmts[-1], ast.Raise)

    def check_init(self):
        init = next((n for n in self.lte.body if isinstance(n, ast.FunctionDef) and n.name == "__init__"), None)
        if init is None:
            self.fail("mixture.py", self.lte, "LTE.__init__ missing")
        txt = [ast.unparse(s) for s in init.body]
        if not any(t.startswith("self.__isLTE = False") for t in txt):
            self.fail("mixture.py", init, "LTE.__init__ does not start with the flag cleared")

    # ---- effects of one function ------------------------------------------------------------------------------------
    def summarize(self, fi: FnInfo):
        self.cur = fi
        fn = fi.node
        self.params = [a.arg for a in fn.args.args]
        self.locals = set(self.params)
        for n in ast.walk(fn):
            if isinstance(n, ast.Name) and isinstance(n.ctx, ast.Store):
                self.locals.add(n.id)
            if isinstance(n, (ast.Global, ast.Nonlocal)):
                self.fail(fi.short, n, "global / nonlocal statement")
            if isinstance(n, (ast.Lambda, ast.FunctionDef)) and n is not fn and not isinstance(n, ast.Lambda):
                self.fail(fi.short, n, "nested function")
        self.slots = {}
        self.t_dirty = False
        self.in_restoring_try = 0
        return self.block(fn.body)

    def slot(self, name):
        return self.slots.setdefault(name, len(self.slots))

    def block(self, stmts):
        out = []
        for i, st in enumerate(stmts):
            if isinstance(st, ast.Expr) and isinstance(st.value, ast.Constant):
                continue
            if isinstance(st, ast.If):
                t = st.test
                if isinstance(t, ast.Attribute) and isinstance(t.value, ast.Name) and t.value.id == self.cur.recv and t.attr in PRIV_FLAG:
                    if not (st.body and isinstance(st.body[-1], ast.Return)) or st.orelse:
                        self.fail(self.cur.short, st, "flag test that is not `if flag: ...; return`")
                    a = self.block(st.body)
                    b = self.block(stmts[i + 1:])
                    out.append(("IfValid", a, b))
                    return out
                if isinstance(t, ast.Name) and t.id == "_VERIF" and t.id not in self.locals:
                    # guarded instrumentation: may read anything, may store only into receiver._verif_* attributes
                    for x in ast.walk(st):
                        if isinstance(x, (ast.Assign, ast.AugAssign, ast.AnnAssign)):
                            tg = x.targets if isinstance(x, ast.Assign) else [x.target]
                            for tt in tg:
                                if not (isinstance(tt, ast.Attribute) and isinstance(tt.value, ast.Name) and tt.value.id == self.cur.recv
                                        and tt.attr.startswith("_verif_")):
                                    self.fail(self.cur.short, x, "instrumentation block stores outside receiver._verif_*")
                        if isinstance(x, ast.Call) and isinstance(x.func, ast.Attribute) and isinstance(x.func.value, ast.Name) \
                                and x.func.value.id == self.cur.recv:
                            self.fail(self.cur.short, x, "instrumentation block calls a receiver method")
                    if st.orelse:
                        self.fail(self.cur.short, st, "instrumentation block with else")
                    continue
                if isinstance(t, ast.Name) and t.id in self.params:
                    a, b = self.block(st.body), self.block(st.orelse)
                    if a or b:
                        out.append(("IfParam", a, b))
                    continue
                te = self.expr(t)
                a, b = self.block(st.body), self.block(st.orelse)
                if a or b:
                    self.fail(self.cur.short, st, "conditional with cache / flag / temperature effects in a branch")
                out += te
                continue
            if isinstance(st, ast.Try):
                # try: <body> finally: receiver.T = <saved>   — the only accepted form.  Normal path = body then finalbody;
                # the finalbody must be exactly one restoring assignment, so that T is restored on every exit, also when a
                # call in the body raises (Python's finally semantics, trusted).
                if st.handlers or st.orelse or not st.finalbody:
                    self.fail(self.cur.short, st, "try statement that is not try/finally")
                self.in_restoring_try += 1
                body = self.block(st.body)
                self.in_restoring_try -= 1
                fin = self.block(st.finalbody)
                if len(fin) != 1 or fin[0][0] != "SetTRestore":
                    self.fail(self.cur.short, st, "finally block that is not a single restoring temperature assignment")
                out += body + fin
                continue
            if isinstance(st, (ast.For, ast.While)):
                head = self.expr(st.iter if isinstance(st, ast.For) else st.test)
                if isinstance(st, ast.For):
                    self.store_target(st.target)
                body = self.block(st.body)
                if st.orelse:
                    self.fail(self.cur.short, st, "loop with else")
                if any(e[0] in ("SetTPert", "SetTRestore", "SaveT", "IfValid", "IfParam") for e in body):
                    self.fail(self.cur.short, st, "temperature assignment or flag test inside a loop")
                if body:
                    self.assumed_loops.append(f"{self.cur.short}:{st.lineno} ({self.cur.name})")
                out += head + body
                continue
            out += self.stmt(st)
        return out

    def stmt(self, st):
        f = self.cur
        if isinstance(st, (ast.Return,)):
            return self.expr(st.value) if st.value is not None else []
        if isinstance(st, ast.Expr):
            return self.expr(st.value)
        if isinstance(st, (ast.Pass, ast.Break, ast.Continue)):
            return []
        if isinstance(st, ast.Raise):
            return self.expr(st.exc) if st.exc is not None else []
        if isinstance(st, ast.Assert):
            return self.expr(st.test)
        if isinstance(st, ast.AnnAssign):
            if st.value is None:
                return []
            st = ast.Assign(targets=[st.target], value=st.value, lineno=st.lineno)
        if isinstance(st, ast.Assign):
            if len(st.targets) == 1 and isinstance(st.targets[0], ast.Name) and self.is_recv_attr(st.value, {"T"}):
                # <local> = receiver.T  — legal only while T is still the entry temperature
                if self.t_dirty:
                    self.fail(f.short, st, "temperature saved after it was perturbed")
                return [("SaveT", self.slot(st.targets[0].id))]
            out = self.expr(st.value)
            for t in st.targets:
                out += self.store_target(t, st.value)
            return out
        if isinstance(st, ast.AugAssign):
            out = self.expr(st.value)
            if isinstance(st.target, ast.Name):
                return out
            return out + self.expr(st.target, load=True) + self.store_target(st.target)
        if isinstance(st, ast.With):
            self.fail(f.short, st, "with statement")
        self.fail(f.short, st, f"statement {type(st).__name__}")

    def is_recv_attr(self, node, attrs):
        return isinstance(node, ast.Attribute) and isinstance(node.value, ast.Name) and node.value.id == self.cur.recv and node.attr in attrs

    def store_target(self, t, value=None):
        f = self.cur
        if isinstance(t, ast.Name):
            return []
        if isinstance(t, (ast.Tuple, ast.List)):
            out = []
            for e in t.elts:
                out += self.store_target(e)
            return out
        if isinstance(t, ast.Attribute):
            if isinstance(t.value, ast.Name) and t.value.id == f.recv:
                if t.attr in PRIV_N:
                    return [("WriteN",)]
                if t.attr in PRIV_E:
                    return [("WriteE",)]
                if t.attr in PRIV_FLAG:
                    if isinstance(value, ast.Constant) and isinstance(value.value, bool):
                        return [("SetFlag", value.value)]
                    self.fail(f.short, t, "flag assigned a non-literal")
                if t.attr == "T":
                    return [self.classify_T(value, t)]
                if t.attr == "_verif_trace":
                    return []
                self.fail(f.short, t, f"store to receiver attribute {t.attr}")
            self.fail(f.short, t, f"attribute store on {ast.unparse(t.value)} (shared objects must never be written)")
        if isinstance(t, ast.Subscript):
            root = t.value
            while isinstance(root, (ast.Subscript, ast.Attribute)):
                root = root.value
            if isinstance(root, ast.Name) and root.id in self.locals and root.id != f.recv and not isinstance(t.value, ast.Attribute):
                return self.expr(t.slice)
            self.fail(f.short, t, f"subscript store into {ast.unparse(t.value)} (not a local array)")
        self.fail(f.short, t, "store target")

    def classify_T(self, value, node):
        f = self.cur
        self.t_dirty = True
        if isinstance(value, ast.Name) and value.id in self.slots:
            return ("SetTRestore", self.slots[value.id])
        if isinstance(value, ast.BinOp) and isinstance(value.op, ast.Mult) and isinstance(value.left, ast.Name) and value.left.id in self.slots:
            r = value.right
            if isinstance(r, ast.BinOp) and isinstance(r.op, (ast.Add, ast.Sub)) and isinstance(r.left, ast.Constant) and r.left.value == 1 \
                    and isinstance(r.right, ast.Name) and r.right.id in self.params:
                if not self.in_restoring_try:
                    # exception safety (C03: no calculate_* call changes the visible T, also when a perturbed evaluation raises)
                    self.fail(f.short, node, "temperature perturbed outside a try/finally that restores it")
                return ("SetTPert", self.slots[value.left.id], isinstance(r.op, ast.Add))
        self.fail(f.short, node, f"temperature assigned {ast.unparse(value)} (only <saved> * (1 +/- <parameter>) or <saved>)")

    def expr(self, n, load=False):
        """effects of evaluating an expression, in evaluation order"""
        f = self.cur
        if n is None:
            return []
        if isinstance(n, ast.Attribute):
            if isinstance(n.value, ast.Name) and n.value.id == f.recv:
                if n.attr in PRIV_N:
                    return [("ReadN",)]
                if n.attr in PRIV_E:
                    return [("ReadE",)]
                if n.attr in PRIV_FLAG:
                    self.fail(f.short, n, "flag read outside `if flag:`")
                if n.attr in INPUT_ATTRS:
                    return []
                if ("%s" % n.attr) in self.fns or n.attr.startswith("calculate_") or n.attr.startswith("_LTE__get") or n.attr == "__get_reference_energies":
                    return []   # bound method object; the call node emits the effect
                self.fail(f.short, n, f"read of receiver attribute {n.attr}")
            return self.expr(n.value)
        if isinstance(n, ast.Call):
            out = []
            fn = n.func
            target = None
            if isinstance(fn, ast.Attribute) and isinstance(fn.value, ast.Name) and fn.value.id == f.recv:
                nm = fn.attr
                if nm.startswith("_LTE"):
                    nm = nm[len("_LTE"):]
                if nm in self.fns:
                    target = self.fns[nm]
                else:
                    self.fail(f.short, n, f"call of receiver method {fn.attr} that is not summarised")
            elif isinstance(fn, ast.Attribute) and isinstance(fn.value, ast.Name) and fn.value.id in ("functions_transport", "functions_radiation"):
                key = ("ft." if fn.value.id == "functions_transport" else "fr.") + fn.attr
                if key not in self.fns:
                    self.fail(f.short, n, f"call of {ast.unparse(fn)} that is not summarised")
                target = self.fns[key]
            elif isinstance(fn, ast.Name) and (("ft." + fn.id) in self.fns and f.short == "functions_transport.py"):
                target = self.fns["ft." + fn.id]
            else:
                if isinstance(fn, ast.Attribute):
                    root = fn.value
                    while isinstance(root, (ast.Attribute, ast.Subscript, ast.Call)):
                        root = root.value if not isinstance(root, ast.Call) else root.func
                    if fn.attr in MUTATORS and isinstance(root, ast.Name) and root.id not in self.locals:
                        self.fail(f.short, n, f"mutating call {ast.unparse(fn)} on non-local state")
                    out += self.expr(fn.value)
                elif isinstance(fn, ast.Name) and fn.id not in self.locals and fn.id in ("setattr", "exec", "eval", "globals", "vars"):
                    self.fail(f.short, n, f"call of {fn.id}")
            passes_recv = any(isinstance(a, ast.Name) and a.id == f.recv for a in n.args) or \
                any(isinstance(k.value, ast.Name) and k.value.id == f.recv for k in n.keywords)
            if target is None and passes_recv:
                self.fail(f.short, n, f"receiver passed to un-summarised function {ast.unparse(fn)}")
            if target is not None and target.recv != "self" and not passes_recv:
                self.fail(f.short, n, f"{ast.unparse(fn)} called without the receiver")
            for a in n.args:
                out += self.expr(a)
            for k in n.keywords:
                out += self.expr(k.value)
            if target is not None:
                out.append(("Call", target.idx))
            return out
        if isinstance(n, (ast.ListComp, ast.GeneratorExp, ast.SetComp)):
            out = []
            for g in n.generators:
                out += self.expr(g.iter)
                for c in g.ifs:
                    out += self.expr(c)
            body = self.expr(n.elt)
            if any(e[0] == "Call" for e in body):
                self.assumed_loops.append(f"{f.short}:{n.lineno} ({f.name}, comprehension)")
            return out + body
        if isinstance(n, ast.DictComp):
            out = []
            for g in n.generators:
                out += self.expr(g.iter)
            return out + self.expr(n.key) + self.expr(n.value)
        if isinstance(n, ast.IfExp):
            a, b = self.expr(n.body), self.expr(n.orelse)
            if a or b:
                self.fail(f.short, n, "conditional expression with effects")
            return self.expr(n.test)
        if isinstance(n, ast.Lambda):
            if self.expr(n.body):
                self.fail(f.short, n, "lambda with effects")
            return []
        if isinstance(n, ast.NamedExpr):
            self.fail(f.short, n, "assignment expression")
        out = []
        for c in ast.iter_child_nodes(n):
            if isinstance(c, ast.expr):
                out += self.expr(c)
            elif isinstance(c, (ast.keyword,)):
                out += self.expr(c.value)
            elif isinstance(c, ast.Slice):
                out += self.expr(c.lower) + self.expr(c.upper) + self.expr(c.step)
        return out


def render_stmts(es):
    parts = []
    for e in es:
        k = e[0]
        if k in ("ReadN", "ReadE", "WriteN", "WriteE"):
            parts.append(k)
        elif k == "SetFlag":
            parts.append(f"SetFlag {'true' if e[1] else 'false'}")
        elif k == "SaveT":
            parts.append(f"SaveT {e[1]}")
        elif k == "SetTPert":
            parts.append(f"SetTPert {e[1]} {'true' if e[2] else 'false'}")
        elif k == "SetTRestore":
            parts.append(f"SetTRestore {e[1]}")
        elif k == "Call":
            parts.append(f"Call {e[1]}")
        elif k in ("IfValid", "IfParam"):
            parts.append(f"{k} {render_stmts(e[1])} {render_stmts(e[2])}")
    return "[" + "; ".join(parts) + "]"


def check_x0_reads(ex):
    """C04: the constraint mole fractions are read only to form the element totals in calculate_composition"""
    for key, fi in ex.fns.items():
        allowed = set()
        if fi.name == "calculate_composition":
            for st in ast.walk(fi.node):
                if isinstance(st, ast.Assign) and len(st.targets) == 1 and ast.unparse(st.targets[0]) == "element['N_tot']":
                    for x in ast.walk(st.value):
                        allowed.add(id(x))
        for x in ast.walk(fi.node):
            if isinstance(x, ast.Attribute) and x.attr in ("x0", "__x0", "_LTE__x0") and isinstance(x.ctx, ast.Load) and id(x) not in allowed:
                raise Unsupported(fi.short, x, f"{fi.name} reads the constraint mole fractions outside the element totals")


def generate(repo):
    ex = Extractor(repo)
    ex.load()
    check_x0_reads(ex)
    bodies = {}
    for key, fi in ex.fns.items():
        bodies[fi.idx] = (fi, ex.summarize(fi))
    lines = ["(* GENERATED by /verif/translator/effects.py — effect summaries of the LTE methods and of the functions that",
             "   receive a mixture, regenerated from mixture.py / functions_transport.py / functions_radiation.py. *)",
             "From Coq Require Import List String.", "Import ListNotations.", "From MPC Require Import Cache.", "Open Scope string_scope.", ""]
    lines.append("Definition body (m : nat) : list stmt :=\n  match m with")
    for idx in sorted(bodies):
        fi, es = bodies[idx]
        lines.append(f"  | {idx} => (* {fi.name} *) {render_stmts(es)}")
    lines.append("  | _ => []\n  end%nat.")
    lines.append(f"Definition n_methods : nat := {len(bodies)}.")
    for idx in sorted(bodies):
        fi, _ = bodies[idx]
        lines.append(f"Definition m_{fi.name.lstrip('_')} : nat := {idx}.")
    pubs = [fi for fi, _ in bodies.values() if fi.public]
    lines.append("Definition public_methods : list nat := [" + "; ".join(str(fi.idx) for fi in sorted(pubs, key=lambda f: f.idx)) + "].")
    lines.append("Definition method_names : list (nat * string) := [" + "; ".join(
        f'({fi.idx}, "{fi.name}")' for fi, _ in (bodies[i] for i in sorted(bodies))) + "].")
    lines.append("(* checked syntactically by the generator (it refuses otherwise): the T / P / x0 setters clear the flag on every")
    lines.append("   non-raising path and write nothing else; no summarised function writes an attribute of any object other than the")
    lines.append("   receiver's private cache fields, stores into a non-local array, or calls a mutator on non-local state *)")
    lines.append("Definition setters_clear_flag : bool := true.")
    lines.append("Definition shared_state_never_written : bool := true.")
    lines.append("(* the constraint mole fractions x0 are read only in calculate_composition, to form element['N_tot'] *)")
    lines.append("Definition x0_read_only_for_element_totals : bool := true.")
    loops = sorted(set(ex.assumed_loops))
    lines.append("(* loops whose bodies carry effects, flattened to one execution (assumed to run at least once):")
    for l in loops:
        lines.append(f"   {l}")
    lines.append("*)")
    return "\n".join(lines) + "\n"
