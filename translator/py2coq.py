#!/usr/bin/env python3
"""py2coq — fail-closed translator from the numerical Python subset used by
minplascalc into Gallina kernels parametric in a `Num` record (coq/lib/Num.v).

Only the stdlib `ast` module is used.  Anything outside the accepted subset
raises `Unsupported(file, line, what)`; nothing is ever skipped silently.

Typing: every translated expression carries a tag
  'A' numeric carrier | 'Z' Python int known to be an integer (charge numbers)
  'nat' small non-negative integer (indices, collision-integral orders)
  'bool' | ('list', t) | ('tuple', [t..]) | ('opt', t) | ('fun1', t) | ('fun2', t) | 'species'
Ints are injected into A with nofZ when they meet an 'A' operand.
"""
from __future__ import annotations

import ast
import sys
from fractions import Fraction


class Unsupported(Exception):
    def __init__(self, fn, node, what):
        line = getattr(node, "lineno", "?")
        super().__init__(f"{fn}:{line}: unsupported: {what}")
        self.file, self.line, self.what = fn, line, what


RESERVED = {
    "N", "U", "A", "at", "as", "in", "fix", "let", "end", "fun", "if", "then",
    "else", "match", "with", "return", "Type", "Set", "Prop", "forall",
    "exists", "using", "where", "for", "cofix", "struct", "s", "nat", "Z",
    "list", "bool", "pi", "exp", "ln", "sqrt", "delta", "sum", "beta_", "lloop", "lrest",
}

UNITS = {
    "k_b": "k_b", "N_a": "N_a", "h": "h_pl", "hbar": "hbar", "c": "c_light",
    "e": "e_ch", "m_e": "m_e", "epsilon_0": "epsilon_0", "R": "R_gas",
    "K_to_eV": "K_to_eV", "J_to_eV": "J_to_eV",
}

SPECIES_FIELDS = {
    "molar_mass": "A", "charge_number": "Z", "ionisation_energy": "A",
    "dissociation_energy": "A", "energy_levels": ("list", ("tuple", ["A", "A"])),
    "g0": "A", "w_e": "A", "b_e": "A", "sigma_s": "A", "linear_yn": "bool",
    "wi_e": ("list", "A"), "abc_e": ("list", "A"), "polarisability": "A",
    "multiplicity": "A", "effective_electrons": ("opt", "A"),
    "electron_cross_section": ("opt", ("tuple", ["A", "A", "A", "A"])),
    "emission_lines": ("list", ("tuple", ["A", "A", "A"])),
    "stoichiometry": "stoich", "name": "name",
}


def cname(n: str) -> str:
    return n + "_" if n in RESERVED else n


def zlit(k: int) -> str:
    return f"({k})%Z" if k < 0 else f"{k}%Z"


def a_of_int(k: int) -> str:
    return f"(nofZ N {zlit(k)})"


def a_of_fraction(fr: Fraction) -> str:
    if fr.denominator == 1:
        return a_of_int(fr.numerator)
    return f"(ndiv N {a_of_int(fr.numerator)} {a_of_int(fr.denominator)})"


def float_to_fraction(node: ast.Constant, src: str | None) -> Fraction:
    """Exact decimal reading of a float literal as written in the source."""
    text = src if src is not None else repr(node.value)
    text = text.replace("_", "")
    return Fraction(text)


class FnCfg:
    """How one Python function/method is to be rendered."""

    def __init__(self, coq, params, ret="A", self_var=None, arrays=None,
                 calls=None, extra_env=None, qblock=False, coq_params=None):
        self.coq_params = coq_params
        self.coq = coq            # Coq name
        self.params = params      # [(pyname, type)]
        self.ret = ret
        self.self_var = self_var  # name of the species record standing for `self`
        self.arrays = arrays or {}
        self.calls = calls or {}  # python callee name -> (coq name, ret type, passes N/U flags)
        self.extra_env = extra_env or {}
        self.qblock = qblock


class Translator:
    def __init__(self, path: str, short: str):
        self.path, self.short = path, short
        self.src = open(path).read()
        self.tree = ast.parse(self.src)
        self.out: list[str] = []       # emitted top-level definitions
        self.loop_counter = 0
        self.known_calls: dict[str, tuple] = {}   # py name -> (coq, ret, argtypes|None)

    # ------------------------------------------------------------------ lookup
    def find(self, qual: str) -> ast.FunctionDef:
        parts = qual.split(".")
        body = self.tree.body
        node = None
        for p in parts:
            node = next((n for n in body if isinstance(n, (ast.FunctionDef, ast.ClassDef)) and n.name == p), None)
            if node is None:
                raise Unsupported(self.short, self.tree, f"definition {qual} not found")
            body = node.body
        if not isinstance(node, ast.FunctionDef):
            raise Unsupported(self.short, node, f"{qual} is not a function")
        return node

    def fail(self, node, what):
        raise Unsupported(self.short, node, what)

    # -------------------------------------------------------------- expressions
    def inj(self, text, ty, node=None):
        """Coerce an expression to the carrier A."""
        if ty == "A":
            return text
        if ty == "Z":
            return f"(nofZ N {text})"
        if ty == "nat":
            return f"(nofZ N (Z.of_nat {text}))"
        if ty == ("opt", "A"):
            # an optional number used as a number (the None case is tested, and raises, before this point)
            return f"(match {text} with Some vopt => vopt | None => ndiv N (nofZ N 0%Z) (nofZ N 0%Z) end)"
        self.fail(node, f"cannot use a value of type {ty} as a number")

    def ex(self, n, env, cfg):
        """-> (coq text, type tag)"""
        if isinstance(n, ast.Constant):
            v = n.value
            if isinstance(v, bool):
                return ("true" if v else "false"), "bool"
            if isinstance(v, int):
                return zlit(v), "Z"
            if isinstance(v, float):
                seg = ast.get_source_segment(self.src, n)
                return a_of_fraction(float_to_fraction(n, seg)), "A"
            if v is None:
                return "None", ("opt", "A")
            self.fail(n, f"constant {v!r}")
        if isinstance(n, ast.Name):
            if n.id in env:
                return cname(n.id), env[n.id]
            if n.id in cfg.extra_env:
                return cfg.extra_env[n.id]
            if n.id in getattr(self, "globals_env", {}):
                return self.globals_env[n.id]
            self.fail(n, f"unknown name {n.id}")
        if isinstance(n, ast.UnaryOp):
            if isinstance(n.op, ast.USub):
                if isinstance(n.operand, ast.Constant) and isinstance(n.operand.value, int):
                    return zlit(-n.operand.value), "Z"
                t, ty = self.ex(n.operand, env, cfg)
                if ty == "Z":
                    return f"(Z.opp {t})", "Z"
                return f"(nopp N {self.inj(t, ty, n)})", "A"
            if isinstance(n.op, ast.Not):
                t, ty = self.ex(n.operand, env, cfg)
                if ty != "bool":
                    self.fail(n, "not on non-bool")
                return f"(negb {t})", "bool"
            self.fail(n, "unary operator")
        if isinstance(n, ast.BinOp):
            return self.binop(n, env, cfg)
        if isinstance(n, ast.Attribute):
            return self.attr(n, env, cfg)
        if isinstance(n, ast.Subscript):
            return self.subscript(n, env, cfg)
        if isinstance(n, ast.Call):
            return self.call(n, env, cfg)
        if isinstance(n, ast.Compare):
            return self.compare(n, env, cfg)
        if isinstance(n, ast.BoolOp):
            parts = [self.ex(v, env, cfg) for v in n.values]
            for t, ty in parts:
                if ty != "bool":
                    self.fail(n, "boolean operator on non-bool")
            op = "andb" if isinstance(n.op, ast.And) else "orb"
            acc = parts[-1][0]
            for t, _ in reversed(parts[:-1]):
                acc = f"({op} {t} {acc})"
            return acc, "bool"
        if isinstance(n, ast.IfExp):
            c, cty = self.ex(n.test, env, cfg)
            a, aty = self.ex(n.body, env, cfg)
            b, bty = self.ex(n.orelse, env, cfg)
            if cty != "bool":
                self.fail(n, "non-bool condition")
            if aty != bty:
                a, b, aty = self.inj(a, aty, n), self.inj(b, bty, n), "A"
            return f"(if {c} then {a} else {b})", aty
        if isinstance(n, ast.Tuple):
            parts = [self.ex(e, env, cfg) for e in n.elts]
            return "(" + ", ".join(p[0] for p in parts) + ")", ("tuple", [p[1] for p in parts])
        if isinstance(n, (ast.ListComp, ast.GeneratorExp)):
            return self.comprehension(n, env, cfg)
        if isinstance(n, ast.List):
            parts = [self.ex(e, env, cfg) for e in n.elts]
            tys = {repr(p[1]) for p in parts}
            if len(tys) > 1:
                parts = [(self.inj(t, ty, n), "A") for t, ty in parts]
            ety = parts[0][1] if parts else "A"
            return "[" + "; ".join(p[0] for p in parts) + "]", ("list", ety)
        self.fail(n, type(n).__name__)

    def const_fraction(self, n):
        """A literal arithmetic expression made of int/float constants -> Fraction, else None."""
        if isinstance(n, ast.Constant) and isinstance(n.value, (int, float)) and not isinstance(n.value, bool):
            if isinstance(n.value, int):
                return Fraction(n.value)
            return float_to_fraction(n, ast.get_source_segment(self.src, n))
        if isinstance(n, ast.UnaryOp) and isinstance(n.op, ast.USub):
            v = self.const_fraction(n.operand)
            return None if v is None else -v
        if isinstance(n, ast.BinOp) and isinstance(n.op, (ast.Add, ast.Sub, ast.Mult, ast.Div)):
            a, b = self.const_fraction(n.left), self.const_fraction(n.right)
            if a is None or b is None:
                return None
            if isinstance(n.op, ast.Add):
                return a + b
            if isinstance(n.op, ast.Sub):
                return a - b
            if isinstance(n.op, ast.Mult):
                return a * b
            return a / b if b != 0 else None
        return None

    def binop(self, n, env, cfg):
        if isinstance(n.op, ast.Pow):
            base, bty = self.ex(n.left, env, cfg)
            fr = self.const_fraction(n.right)
            if fr is not None and fr.denominator == 1 and 0 <= fr.numerator <= 64 and \
                    isinstance(n.right, ast.Constant) and isinstance(n.right.value, int):
                if bty == "Z":
                    return f"(Z.pow {base} {zlit(fr.numerator)})", "Z"
                return f"(npow N {self.inj(base, bty, n)} {fr.numerator})", "A"
            if fr is not None:
                # literal exponent written as a float or a quotient: keep it as the exact rational
                return f"(nrpow N {self.inj(base, bty, n)} {a_of_fraction(fr)})", "A"
            e, ety = self.ex(n.right, env, cfg)
            return f"(nrpow N {self.inj(base, bty, n)} {self.inj(e, ety, n)})", "A"
        a, aty = self.ex(n.left, env, cfg)
        b, bty = self.ex(n.right, env, cfg)
        LA = ("list", "A")
        if aty == LA and bty == LA and isinstance(n.op, (ast.Div, ast.Mult, ast.Add, ast.Sub)):
            f = {ast.Div: "ndiv", ast.Mult: "nmul", ast.Add: "nadd", ast.Sub: "nsub"}[type(n.op)]
            return f"(map2 ({f} N) {a} {b})", LA
        if aty == LA and bty in ("A", "Z") and isinstance(n.op, (ast.Div, ast.Mult)):
            f = {ast.Div: "ndiv", ast.Mult: "nmul"}[type(n.op)]
            return f"(map (fun xel => {f} N xel {self.inj(b, bty, n)}) {a})", LA
        if isinstance(n.op, ast.Div):
            return f"(ndiv N {self.inj(a, aty, n)} {self.inj(b, bty, n)})", "A"
        ops = {ast.Add: ("nadd", "Z.add", "Nat.add"), ast.Sub: ("nsub", "Z.sub", None),
               ast.Mult: ("nmul", "Z.mul", "Nat.mul")}
        for k, (fa, fz, fn) in ops.items():
            if isinstance(n.op, k):
                if aty == "Z" and bty == "Z":
                    return f"({fz} {a} {b})", "Z"
                if aty == "nat" and bty == "nat" and fn:
                    return f"({fn} {a} {b})", "nat"
                if {aty, bty} <= {"nat", "Z"}:
                    az = a if aty == "Z" else f"(Z.of_nat {a})"
                    bz = b if bty == "Z" else f"(Z.of_nat {b})"
                    return f"({fz} {az} {bz})", "Z"
                return f"({fa} N {self.inj(a, aty, n)} {self.inj(b, bty, n)})", "A"
        if isinstance(n.op, ast.Mod):
            if aty == "nat" and bty == "Z":
                return f"(Z.modulo (Z.of_nat {a}) {b})", "Z"
            if aty == "Z" and bty == "Z":
                return f"(Z.modulo {a} {b})", "Z"
        self.fail(n, f"binary operator {type(n.op).__name__} on {aty},{bty}")

    def attr(self, n, env, cfg):
        if isinstance(n.value, ast.Name):
            base = n.value.id
            if base == "u":
                if n.attr == "pi":
                    return "(npi N)", "A"
                if n.attr in UNITS:
                    return f"({UNITS[n.attr]} U)", "A"
                self.fail(n, f"unit constant u.{n.attr}")
            if base in ("np", "numpy") and n.attr == "pi":
                return "(npi N)", "A"
            if base == "self" and cfg.self_var and n.attr in SPECIES_FIELDS:
                return f"({n.attr} {cfg.self_var})", SPECIES_FIELDS[n.attr]
            if base in env and env[base] == "species" and n.attr in SPECIES_FIELDS:
                f = "sname" if n.attr == "name" else n.attr
                return f"({f} {cname(base)})", SPECIES_FIELDS[n.attr]
            if base in env and isinstance(env[base], tuple) and env[base][0] == "obj":
                fields = env[base][1]
                if n.attr in fields:
                    return fields[n.attr]
        if n.attr in SPECIES_FIELDS and not isinstance(n.value, ast.Name):
            t, ty = self.ex(n.value, env, cfg)
            if ty == "species":
                f = "sname" if n.attr == "name" else n.attr
                return f"({f} {t})", SPECIES_FIELDS[n.attr]
        self.fail(n, f"attribute {ast.unparse(n)}")

    def subscript(self, n, env, cfg):
        if isinstance(n.value, ast.Name) and n.value.id in cfg.arrays:
            rank, ety = cfg.arrays[n.value.id]
            idx = n.slice.elts if isinstance(n.slice, ast.Tuple) else [n.slice]
            if len(idx) != rank:
                self.fail(n, "array rank")
            its = []
            for i in idx:
                t, ty = self.ex(i, env, cfg)
                if ty != "nat":
                    self.fail(n, f"array index of type {ty}")
                its.append(t)
            return f"({cname(n.value.id)} {' '.join(its)})", ety
        base, bty = self.ex(n.value, env, cfg)
        if isinstance(n.slice, ast.Slice):
            s = n.slice
            if s.lower is None and s.step is None and isinstance(s.upper, ast.UnaryOp) and \
                    isinstance(s.upper.op, ast.USub) and isinstance(s.upper.operand, ast.Constant) and s.upper.operand.value == 1:
                if not (isinstance(bty, tuple) and bty[0] == "list"):
                    self.fail(n, "slice of non-list")
                return f"(removelast {base})", bty
            self.fail(n, "slice form")
        if isinstance(bty, tuple) and bty[0] == "list":
            if isinstance(n.slice, ast.Constant) and isinstance(n.slice.value, int) and n.slice.value >= 0:
                if bty[1] != "A":
                    self.fail(n, "constant index into non-numeric list")
                return f"(nth {n.slice.value} {base} (nofZ N 0%Z))", "A"
            if isinstance(n.slice, ast.UnaryOp) and isinstance(n.slice.op, ast.USub) and \
                    isinstance(n.slice.operand, ast.Constant) and n.slice.operand.value == 1 and bty[1] == "A":
                return f"(last {base} (nofZ N 0%Z))", "A"
            t, ty = self.ex(n.slice, env, cfg)
            if ty == "Z":
                t, ty = f"(Z.to_nat {t})", "nat"
            if ty == "nat" and bty[1] == "Z":
                return f"(nth {t} {base} 0%Z)", "Z"
            if ty == "nat" and bty[1] == "A":
                return f"(nth {t} {base} (nofZ N 0%Z))", "A"
            if ty == "nat" and bty[1] == "species":
                return f"(nth {t} {base} (dummy_species (nofZ N 0%Z)))", "species"
        self.fail(n, f"subscript {ast.unparse(n)}")

    NP1 = {"exp": "nexp", "log": "nln", "sqrt": "nsqrt", "tanh": "ntanh", "abs": "nabs"}

    def call(self, n, env, cfg):
        f = n.func
        if n.keywords and not (isinstance(f, ast.Attribute) and f.attr in ("dot", "array") and all(k.arg in ("out", "dtype") for k in n.keywords)):
            self.fail(n, "keyword arguments")
        # numpy / builtins
        if isinstance(f, ast.Attribute) and isinstance(f.value, ast.Name) and f.value.id in ("np", "numpy"):
            if f.attr in self.NP1 and len(n.args) == 1:
                t, ty = self.ex(n.args[0], env, cfg)
                if f.attr == "abs" and ty == "Z":
                    return f"(Z.abs {t})", "Z"
                return f"({self.NP1[f.attr]} N {self.inj(t, ty, n)})", "A"
            if f.attr == "array" and len(n.args) == 1:
                t, ty = self.ex(n.args[0], env, cfg)
                if ty != ("list", "A"):
                    self.fail(n, f"np.array of {ty}")
                return t, ty
            if f.attr in ("argmin", "argmax") and len(n.args) == 1:
                t, ty = self.ex(n.args[0], env, cfg)
                if ty != ("list", "A"):
                    self.fail(n, f"np.{f.attr} of {ty}")
                return f"({f.attr} N {t})", "nat"
            if f.attr == "dot" and getattr(self, "np_dot_tab", None) and len(n.args) == 2 and \
                    ast.unparse(n.args[0]) == f"{self.np_dot_tab}[l - 1, s - 1]" and ast.unparse(n.args[1]) == "beta_array":
                # a = np.dot(c_xx[l-1, s-1], [1, beta, beta^2])
                return f"(fit_coeffs ({self.np_dot_tab}_tab l s_) beta_value)", ("list", "A")
            if f.attr == "array" and len(n.args) >= 1 and ast.unparse(n.args[0]) == "[1, beta_value, beta_value ** 2]":
                return "(nofZ N 0%Z)", "A"       # beta_array: consumed only by the np.dot above
            if f.attr in ("sum", "prod") and len(n.args) == 1:
                t, ty = self.ex(n.args[0], env, cfg)
                if ty != ("list", "A"):
                    self.fail(n, f"np.{f.attr} of {ty}")
                return f"({'sum_list' if f.attr == 'sum' else 'prod_list'} N {t})", "A"
            self.fail(n, f"numpy call {f.attr}")
        if isinstance(f, ast.Name):
            if f.id == "abs" and len(n.args) == 1:
                t, ty = self.ex(n.args[0], env, cfg)
                if ty == "Z":
                    return f"(Z.abs {t})", "Z"
                return f"(nabs N {self.inj(t, ty, n)})", "A"
            if f.id == "sum" and len(n.args) == 1:
                t, ty = self.ex(n.args[0], env, cfg)
                if ty != ("list", "A"):
                    self.fail(n, f"sum of {ty}")
                return f"(sum_list N {t})", "A"
            if f.id == "gamma" and len(n.args) == 1:
                t, ty = self.ex(n.args[0], env, cfg)
                return f"(ngamma N {self.inj(t, ty, n)})", "A"
            if f.id == "zip" and len(n.args) == 2:
                a, aty = self.ex(n.args[0], env, cfg)
                b, bty = self.ex(n.args[1], env, cfg)
                if not (isinstance(aty, tuple) and aty[0] == "list" and isinstance(bty, tuple) and bty[0] == "list"):
                    self.fail(n, "zip of non-lists")
                return f"(combine {a} {b})", ("list", ("tuple", [aty[1], bty[1]]))
            if f.id == "zip" and len(n.args) == 3:
                parts = [self.ex(x, env, cfg) for x in n.args]
                for t, ty in parts:
                    if not (isinstance(ty, tuple) and ty[0] == "list"):
                        self.fail(n, "zip of non-lists")
                (a, aty), (b, bty), (c, cty) = parts
                return f"(combine {a} (combine {b} {c}))", ("list", ("tuple", [aty[1], ("tuple", [bty[1], cty[1]])]))
            if f.id == "delta" and len(n.args) == 2:
                a, aty = self.ex(n.args[0], env, cfg)
                b, bty = self.ex(n.args[1], env, cfg)
                if aty != "nat" or bty != "nat":
                    self.fail(n, "delta on non-index")
                return f"(delta N {a} {b})", "A"
            if f.id in self.known_calls:
                coq, ret, argtys = self.known_calls[f.id]
                return self.apply_known(n, coq, ret, argtys, n.args, env, cfg)
            self.fail(n, f"call to {f.id}")
        # method calls on self / species objects
        if isinstance(f, ast.Attribute) and isinstance(f.value, ast.Name):
            key = None
            recv = f.value.id
            if recv == "self" and cfg.self_var:
                key = ("self", f.attr)
                recv_text = cfg.self_var
            elif recv in env and env[recv] == "species":
                key = ("species", f.attr)
                recv_text = cname(recv)
            if recv in env and isinstance(env[recv], tuple) and env[recv][0] == "obj" and not n.args \
                    and (f.attr + "()") in env[recv][1]:
                return env[recv][1][f.attr + "()"]
            if key and key in cfg.calls:
                coq, ret, argtys = cfg.calls[key]
                return self.apply_known(n, f"{coq} {recv_text}", ret, argtys, n.args, env, cfg)
        self.fail(n, f"call {ast.unparse(f)}")

    def apply_known(self, n, coq, ret, argtys, args, env, cfg):
        if argtys is not None and len(argtys) != len(args):
            self.fail(n, "argument count")
        parts = []
        for k, a in enumerate(args):
            t, ty = self.ex(a, env, cfg)
            want = argtys[k] if argtys is not None else ty
            if want == "A":
                t = self.inj(t, ty, n)
            elif want != ty:
                self.fail(n, f"argument {k} has type {ty}, expected {want}")
            parts.append(t)
        return f"({coq} {' '.join(parts)})", ret

    def compare(self, n, env, cfg):
        if len(n.ops) != 1:
            self.fail(n, "chained comparison")
        op = n.ops[0]
        a, aty = self.ex(n.left, env, cfg)
        if aty == "name" and isinstance(n.comparators[0], ast.Constant) and n.comparators[0].value == "e" and isinstance(op, ast.Eq):
            return f"(Nat.eqb {a} 0)", "bool"
        b, bty = self.ex(n.comparators[0], env, cfg)
        if isinstance(op, (ast.Is, ast.IsNot)) and b == "None":
            if not (isinstance(aty, tuple) and aty[0] == "opt"):
                self.fail(n, "is None on non-option")
            t = f"(match {a} with None => true | Some _ => false end)"
            return (t if isinstance(op, ast.Is) else f"(negb {t})"), "bool"
        if aty == "stoich" and bty == "stoich" and isinstance(op, ast.Eq):
            return f"(stoich_eqb {a} {b})", "bool"
        if aty == "name" and isinstance(n.comparators[0], ast.Constant) and n.comparators[0].value == "e" and isinstance(op, ast.Eq):
            return f"(Nat.eqb {a} 0)", "bool"
        ints = {"Z", "nat"}
        if aty in ints and bty in ints:
            az = a if aty == "Z" else f"(Z.of_nat {a})"
            bz = b if bty == "Z" else f"(Z.of_nat {b})"
            tbl = {ast.Lt: f"(Z.ltb {az} {bz})", ast.Gt: f"(Z.ltb {bz} {az})",
                   ast.LtE: f"(Z.leb {az} {bz})", ast.GtE: f"(Z.leb {bz} {az})",
                   ast.Eq: f"(Z.eqb {az} {bz})", ast.NotEq: f"(negb (Z.eqb {az} {bz}))"}
        else:
            x, y = self.inj(a, aty, n), self.inj(b, bty, n)
            tbl = {ast.Lt: f"(nltb N {x} {y})", ast.Gt: f"(nltb N {y} {x})",
                   ast.LtE: f"(nleb N {x} {y})", ast.GtE: f"(nleb N {y} {x})",
                   ast.Eq: f"(neqb N {x} {y})", ast.NotEq: f"(negb (neqb N {x} {y}))"}
        for k, v in tbl.items():
            if isinstance(op, k):
                return v, "bool"
        self.fail(n, f"comparison {type(op).__name__}")

    def bind_target(self, target, ety, env, node):
        """pattern text and the environment extension for a loop/comprehension target."""
        if isinstance(target, ast.Name):
            return cname(target.id), {target.id: ety}
        if isinstance(target, ast.Tuple) and len(target.elts) == 3 and isinstance(ety, tuple) and ety[0] == "tuple" \
                and len(ety[1]) == 2 and isinstance(ety[1][1], tuple) and ety[1][1][0] == "tuple" and len(ety[1][1][1]) == 2:
            # a flat 3-tuple target over zip(a, b, c) rendered as nested pairs
            nested = ast.Tuple(elts=[target.elts[0], ast.Tuple(elts=target.elts[1:], ctx=ast.Store())], ctx=ast.Store())
            return self.bind_target(nested, ety, env, node)
        if isinstance(target, ast.Tuple) and isinstance(ety, tuple) and ety[0] == "tuple" and len(ety[1]) == len(target.elts):
            pats, ext = [], {}
            for t, ty in zip(target.elts, ety[1]):
                p, e = self.bind_target(t, ty, env, node)
                pats.append(p.lstrip("'"))
                ext.update(e)
            return "'(" + ", ".join(pats) + ")", ext
        self.fail(node, f"loop target {ast.unparse(target)} for element type {ety}")

    def comprehension(self, n, env, cfg):
        if len(n.generators) != 1:
            self.fail(n, "nested comprehension")
        g = n.generators[0]
        it, ity = self.ex(g.iter, env, cfg)
        if not (isinstance(ity, tuple) and ity[0] == "list"):
            self.fail(n, f"comprehension over {ity}")
        pat, ext = self.bind_target(g.target, ity[1], env, n)
        env2 = dict(env)
        env2.update(ext)
        body, bty = self.ex(n.elt, env2, cfg)
        if g.ifs:
            if len(g.ifs) != 1:
                self.fail(n, "multiple comprehension filters")
            c, cty = self.ex(g.ifs[0], env2, cfg)
            if cty != "bool":
                self.fail(n, "non-bool filter")
            it = f"(filter (fun {pat} => {c}) {it})"
        return f"(map (fun {pat} => {body}) {it})", ("list", bty)

    # ---------------------------------------------------------------- statements
    @staticmethod
    def is_doc(st):
        return isinstance(st, ast.Expr) and isinstance(st.value, ast.Constant) and isinstance(st.value.value, str)

    def assigned(self, stmts):
        out = []
        for st in stmts:
            if isinstance(st, ast.Assign):
                for t in st.targets:
                    for nm in ast.walk(t):
                        if isinstance(nm, ast.Name) and nm.id not in out:
                            out.append(nm.id)
            elif isinstance(st, ast.AugAssign) and isinstance(st.target, ast.Name):
                if st.target.id not in out:
                    out.append(st.target.id)
            elif isinstance(st, ast.If):
                for v in self.assigned(st.body) + self.assigned(st.orelse):
                    if v not in out:
                        out.append(v)
            elif isinstance(st, ast.For):
                for v in self.assigned(st.body):
                    if v not in out:
                        out.append(v)
        return out

    def ends_flow(self, stmts):
        """does the block always leave via return/break/raise?"""
        if not stmts:
            return False
        last = stmts[-1]
        if isinstance(last, (ast.Return, ast.Break, ast.Raise)):
            return True
        if isinstance(last, ast.If):
            return self.ends_flow(last.body) and self.ends_flow(last.orelse)
        return False

    def block(self, stmts, env, cfg, tail):
        """Translate a statement list.  `tail(env)` renders what happens when control
        falls off the end (None => falling off is an error).  Returns (text, type)."""
        stmts = [s for s in stmts if not self.is_doc(s) and not isinstance(s, ast.Pass)]
        if not stmts:
            if tail is None:
                self.fail(self.tree, "control falls off the end of a function")
            return tail(env)
        st, rest = stmts[0], stmts[1:]
        if isinstance(st, ast.Return):
            if st.value is None:
                self.fail(st, "bare return")
            if getattr(self, "class_mode", False):
                # dispatch summary: which function is called, with the two species in which order
                v = st.value
                if isinstance(v, ast.Call) and isinstance(v.func, ast.Name):
                    names = [a.id for a in v.args if isinstance(a, ast.Name) and env.get(a.id) == "species"]
                    order = "true" if names[:1] == ["species_i"] else "false"
                    return f"(CCall {v.func.id}_tag {order})", "qclass"
                self.fail(st, "dispatch branch that is not a call")
            return self.ex(st.value, env, cfg)
        if isinstance(st, ast.Raise):
            # a raise is the error outcome: rendered by the per-function error value
            if "__raise__" not in cfg.extra_env:
                self.fail(st, "raise in a function without an error value")
            return cfg.extra_env["__raise__"]
        if isinstance(st, ast.Break):
            if "__break__" not in env:
                self.fail(st, "break outside a loop")
            return env["__break__"](env)
        if isinstance(st, ast.AnnAssign):
            if st.value is None:
                return self.block(rest, env, cfg, tail)
            st = ast.Assign(targets=[st.target], value=st.value, lineno=st.lineno)
        if isinstance(st, ast.Assign):
            if len(st.targets) != 1:
                self.fail(st, "multiple assignment targets")
            tgt = st.targets[0]
            v, vty = self.ex(st.value, env, cfg)
            if isinstance(tgt, ast.Name):
                env2 = dict(env)
                env2[tgt.id] = vty
                body, bty = self.block(rest, env2, cfg, tail)
                return f"let {cname(tgt.id)} := {v} in\n  {body}", bty
            if isinstance(tgt, ast.Tuple):
                if isinstance(vty, tuple) and vty[0] == "tuple":
                    pat, ext = self.bind_target(tgt, vty, env, st)
                elif isinstance(vty, tuple) and vty[0] == "opt" and isinstance(vty[1], tuple):
                    self.fail(st, "unpacking an option")
                else:
                    self.fail(st, f"tuple unpacking of {vty}")
                env2 = dict(env)
                env2.update(ext)
                body, bty = self.block(rest, env2, cfg, tail)
                return f"let {pat} := {v} in\n  {body}", bty
            self.fail(st, "assignment target")
        if isinstance(st, ast.AugAssign):
            if not isinstance(st.target, ast.Name) or st.target.id not in env:
                self.fail(st, "augmented assignment target")
            cur = ast.Name(id=st.target.id, ctx=ast.Load())
            new = ast.BinOp(left=cur, op=st.op, right=st.value, lineno=st.lineno)
            ast.copy_location(new, st)
            ast.fix_missing_locations(new)
            v, vty = self.ex(new, env, cfg)
            env2 = dict(env)
            env2[st.target.id] = vty
            body, bty = self.block(rest, env2, cfg, tail)
            return f"let {cname(st.target.id)} := {v} in\n  {body}", bty
        if isinstance(st, ast.If):
            c, cty = self.ex(st.test, env, cfg)
            if cty != "bool":
                self.fail(st, f"condition of type {cty}")
            a_ends, b_ends = self.ends_flow(st.body), self.ends_flow(st.orelse)
            if a_ends and b_ends:
                a, aty = self.block(st.body, env, cfg, None)
                b, bty = self.block(st.orelse, env, cfg, None)
                return f"if {c} then ({a}) else ({b})", aty
            if a_ends or b_ends:
                a, aty = self.block(st.body + ([] if a_ends else rest), env, cfg, None if a_ends else tail)
                b, bty = self.block(st.orelse + ([] if b_ends else rest), env, cfg, None if b_ends else tail)
                return f"if {c} then ({a}) else ({b})", (aty if not a_ends else bty)
            # neither branch leaves: join on the variables they assign
            vs = [v for v in self.assigned(st.body + st.orelse)]
            # a variable assigned in one branch only and not defined before is branch-local:
            # it is not joined, so a later read of it is an unknown name (fail-closed)
            live = [v for v in vs
                    if (v in self.assigned(st.body) or v in env) and (v in self.assigned(st.orelse) or v in env)]
            if not live:
                self.fail(st, "if statement without effect")
            tys = {}

            def join(env_branch):
                parts = []
                for v in live:
                    parts.append(cname(v))
                    tys.setdefault(v, env_branch[v])
                return "(" + ", ".join(parts) + ")" if len(parts) != 1 else parts[0], None

            a, _ = self.block(st.body, env, cfg, join)
            b, _ = self.block(st.orelse, env, cfg, join)
            env2 = dict(env)
            for v in live:
                env2[v] = tys[v]
            pat = ("'(" + ", ".join(cname(v) for v in live) + ")") if len(live) != 1 else cname(live[0])
            body, bty = self.block(rest, env2, cfg, tail)
            return f"let {pat} := (if {c} then ({a}) else ({b})) in\n  {body}", bty
        if isinstance(st, ast.For):
            return self.for_loop(st, rest, env, cfg, tail)
        if isinstance(st, ast.Expr) and isinstance(st.value, ast.Call):
            f = st.value.func
            if isinstance(f, ast.Attribute) and isinstance(f.value, ast.Name) and f.value.id in env \
                    and isinstance(env[f.value.id], tuple) and env[f.value.id][0] == "obj" and not st.value.args \
                    and (f.attr + "()") in env[f.value.id][1]:
                # a call made for its effect on the caches only (C03 models the effect); no value is used
                return self.block(rest, env, cfg, tail)
            if isinstance(f, ast.Attribute) and isinstance(f.value, ast.Name) and f.value.id in ("logging", "logger", "log") \
                    and f.value.id not in env and f.attr in ("debug", "info", "warning", "error", "critical", "log"):
                # a logging call: no effect on any value the kernels compute
                return self.block(rest, env, cfg, tail)
            self.fail(st, "expression statement with side effects")
        self.fail(st, type(st).__name__)

    def free_names(self, nodes, bound):
        out = []
        for nd in nodes:
            for x in ast.walk(nd):
                if isinstance(x, ast.Name) and isinstance(x.ctx, ast.Load) and x.id not in bound and x.id not in out:
                    out.append(x.id)
        return out

    def for_loop(self, st, rest, env, cfg, tail):
        if st.orelse:
            self.fail(st, "for/else")
        # iteration space
        if isinstance(st.iter, ast.Call) and isinstance(st.iter.func, ast.Name) and st.iter.func.id == "range" and len(st.iter.args) == 1:
            nb, nty = self.ex(st.iter.args[0], env, cfg)
            if nty != "nat":
                self.fail(st, "range over non-nat")
            it, ity = f"(seq 0 {nb})", ("list", "nat")
        else:
            it, ity = self.ex(st.iter, env, cfg)
        if not (isinstance(ity, tuple) and ity[0] == "list"):
            self.fail(st, f"loop over {ity}")
        pat, ext = self.bind_target(st.target, ity[1], env, st)
        accs = [v for v in self.assigned(st.body) if v in env]
        if not accs:
            self.fail(st, "loop without accumulator")
        # sum pattern: straight-line body `local = e ...; acc += e`  ->  acc + sum_left (map (fun x => ...) iter)
        body_s = [b for b in st.body if not self.is_doc(b)]
        if len(accs) == 1 and env[accs[0]] in ("A", "Z") and body_s and isinstance(body_s[-1], ast.AugAssign) \
                and isinstance(body_s[-1].op, ast.Add) and isinstance(body_s[-1].target, ast.Name) \
                and body_s[-1].target.id == accs[0] \
                and all(isinstance(b, ast.Assign) and len(b.targets) == 1 and isinstance(b.targets[0], ast.Name)
                        and b.targets[0].id != accs[0] for b in body_s[:-1]) \
                and accs[0] not in self.free_names([b.value for b in body_s], set()):
            env_b = dict(env)
            env_b.update(ext)
            lets = []
            for b in body_s[:-1]:
                v, vty = self.ex(b.value, env_b, cfg)
                lets.append(f"let {cname(b.targets[0].id)} := {v} in")
                env_b[b.targets[0].id] = vty
            term, tty = self.ex(body_s[-1].value, env_b, cfg)
            term = self.inj(term, tty, st)
            acc0 = self.inj(cname(accs[0]), env[accs[0]], st)
            env2 = dict(env)
            env2[accs[0]] = "A"
            k, kty = self.block(rest, env2, cfg, tail)
            fun = f"(fun {pat} => {' '.join(lets)} {term})"
            return f"let {cname(accs[0])} := (nadd N {acc0} (sum_left N (map {fun} {it}))) in\n  {k}", kty
        for v in accs:
            if env[v] != "A":
                self.fail(st, f"accumulator {v} of type {env[v]}")
        # closure conversion: everything the body reads that is not bound by the loop
        bound_here = set(ext) | set(accs)
        captured = [v for v in self.free_names(st.body, bound_here)
                    if v in env and not (isinstance(env[v], tuple) and env[v][0] == "obj")]
        obj_caps = []
        for nd in st.body:
            for x in ast.walk(nd):
                if isinstance(x, ast.Attribute) and isinstance(x.value, ast.Name) and x.value.id in env \
                        and isinstance(env[x.value.id], tuple) and env[x.value.id][0] == "obj":
                    flds = env[x.value.id][1]
                    for key in (x.attr, x.attr + "()"):
                        if key in flds and flds[key] not in obj_caps:
                            obj_caps.append(flds[key])
        self.loop_counter += 1
        lname = f"{cfg.coq}_loop{self.loop_counter}"
        env_body = dict(env)
        env_body.update(ext)
        acc_tuple = "(" + ", ".join(cname(v) for v in accs) + ")" if len(accs) > 1 else cname(accs[0])
        cap_args = " ".join([cname(v) for v in captured] + [t for t, _ in obj_caps])
        self_arg = f" {cfg.self_var}" if cfg.self_var and self.uses_self(st.body) else ""

        def cont(e):
            return f"{lname}{self_arg} {cap_args} {' '.join(cname(v) for v in accs)} lrest", None

        def brk(e):
            return acc_tuple, None

        env_body["__break__"] = brk
        body, _ = self.block(st.body, env_body, cfg, cont)
        params = []
        if self_arg:
            params.append(f"({cfg.self_var} : species A)")
        for v in captured:
            params.append(f"({cname(v)} : {self.coq_type(env[v])})")
        for t, fty in obj_caps:
            params.append(f"({t} : {self.coq_type(fty)})")
        for v in accs:
            params.append(f"({cname(v)} : A)")
        rty = " * ".join(["A"] * len(accs))
        self.out.append(
            f"Fixpoint {lname} {' '.join(params)} (lloop : list {self.coq_type(ity[1], paren=True)}) {{struct lloop}} : {rty} :=\n"
            f"  match lloop with\n  | [] => {acc_tuple}\n  | {pat.lstrip(chr(39))} :: lrest =>\n  {body}\n  end.\n")
        accpat = ("'" + acc_tuple) if len(accs) > 1 else acc_tuple
        env2 = dict(env)
        k, kty = self.block(rest, env2, cfg, tail)
        return (f"let {accpat} := {lname}{self_arg} {cap_args} {' '.join(cname(v) for v in accs)} {it} in\n  {k}"), kty

    def uses_self(self, nodes):
        for nd in nodes:
            for x in ast.walk(nd):
                if isinstance(x, ast.Name) and x.id == "self":
                    return True
        return False

    def coq_type(self, ty, paren=False):
        if ty == "A":
            return "A"
        if ty in ("Z", "nat", "bool"):
            return ty
        if ty == "species":
            return "(species A)"
        if ty == "qclass":
            return "qclass"
        if isinstance(ty, tuple):
            if ty[0] == "list":
                return f"(list {self.coq_type(ty[1], True)})"
            if ty[0] == "tuple":
                t = " * ".join(self.coq_type(x, True) for x in ty[1])
                return f"({t})"
            if ty[0] == "opt":
                return f"(option {self.coq_type(ty[1], True)})"
            if ty[0] == "fun1":
                return f"(nat -> {self.coq_type(ty[1])})"
            if ty[0] == "fun2":
                return f"(nat -> nat -> {self.coq_type(ty[1])})"
        raise Unsupported(self.short, self.tree, f"no Coq type for {ty}")

    # ------------------------------------------------------------------ functions
    def function(self, qual, cfg: FnCfg, self_obj=None):
        fn = self.find(qual)
        pyargs = [a.arg for a in fn.args.args if a.arg != "self"]
        want = [p for p, _ in cfg.params]
        if pyargs != want:
            self.fail(fn, f"signature of {qual} is {pyargs}, translator expects {want}")
        env = {p: t for p, t in cfg.params}
        if self_obj is not None:
            env["self"] = self_obj
        self.loop_counter = 0
        body, bty = self.block(fn.body, env, cfg, None)
        params = []
        if cfg.coq_params is not None:
            params.append(cfg.coq_params)
        else:
            if cfg.self_var:
                params.append(f"({cfg.self_var} : species A)")
            for p, t in cfg.params:
                params.append(f"({cname(p)} : {self.coq_type(t)})")
        if bty != cfg.ret:
            if cfg.ret == "A":
                body = self.inj(f"({body})", bty, fn)
            else:
                self.fail(fn, f"{qual} returns {bty}, expected {cfg.ret}")
        self.out.append(f"Definition {cfg.coq} {' '.join(params)} : {self.coq_type(cfg.ret)} :=\n  {body}.\n")
        return fn

    def function_qblock(self, qual, coq, qarrays):
        """The regular triple loop of the Devoto blocks:
             q = np.zeros(..); for i in range(nb): for j in range(nb): <stmts>; q[i, j] = <expr>; return q
           ->  Definition coq (Q.. : nat -> nat -> A) (masses : nat -> A) (nb_species : nat) (number_densities : nat -> A) (i j : nat) : A"""
        fn = self.find(qual)
        pyargs = [a.arg for a in fn.args.args]
        want = list(qarrays) + ["masses", "nb_species", "number_densities"]
        if pyargs != want:
            self.fail(fn, f"signature of {qual} is {pyargs}, translator expects {want}")
        body = [b for b in fn.body if not self.is_doc(b)]
        if len(body) != 3 or not isinstance(body[0], ast.Assign) or not isinstance(body[1], ast.For) or not isinstance(body[2], ast.Return):
            self.fail(fn, "block is not `q = zeros; for i: ...; return q`")
        qname = body[0].targets[0].id if isinstance(body[0].targets[0], ast.Name) else None
        if qname is None or ast.unparse(body[0].value) != "np.zeros((nb_species, nb_species))" or ast.unparse(body[2].value) != qname:
            self.fail(fn, "block result is not a zero-initialised nb_species x nb_species array")
        fi = body[1]
        if ast.unparse(fi.iter) != "range(nb_species)" or not isinstance(fi.target, ast.Name) or len(fi.body) != 1 or not isinstance(fi.body[0], ast.For):
            self.fail(fi, "outer loop is not `for i in range(nb_species): for j ...`")
        fj = fi.body[0]
        if ast.unparse(fj.iter) != "range(nb_species)" or not isinstance(fj.target, ast.Name):
            self.fail(fj, "inner loop is not `for j in range(nb_species)`")
        iv, jv = fi.target.id, fj.target.id
        stmts = [b for b in fj.body if not self.is_doc(b)]
        last = stmts[-1]
        if not (isinstance(last, ast.Assign) and len(last.targets) == 1 and ast.unparse(last.targets[0]) == f"{qname}[{iv}, {jv}]"):
            self.fail(last, f"loop body does not end with {qname}[{iv}, {jv}] = ...")
        for b in stmts[:-1]:
            for x in ast.walk(b):
                if isinstance(x, ast.Name) and x.id == qname:
                    self.fail(b, "block reads its own result array")
        ret = ast.Return(value=last.value)
        ast.copy_location(ret, last)
        cfg = FnCfg(coq, [], arrays={**{q: (2, "A") for q in qarrays}, "masses": (1, "A"), "number_densities": (1, "A")})
        env = {"nb_species": "nat", iv: "nat", jv: "nat"}
        self.loop_counter = 0
        text, ty = self.block(stmts[:-1] + [ret], env, cfg, None)
        params = " ".join(f"({cname(q)} : nat -> nat -> A)" for q in qarrays)
        self.out.append(f"Definition {coq} {params} (masses : nat -> A) (nb_species : nat) (number_densities : nat -> A) "
                        f"({cname(iv)} {cname(jv)} : nat) : A :=\n  {self.inj(text, ty, fn)}.\n")

    def render(self, header, section):
        lines = [header, f"Section {section}.", "Context {A : Type} (N : Num A) (U : Units A).", ""]
        lines += self.out
        lines.append(f"End {section}.")
        return "\n".join(lines) + "\n"


HEADER = """(* GENERATED by /verif/translator — do not edit; regenerated from /repo on every run. *)
From Coq Require Import ZArith List Bool.
Import ListNotations.
From MPC Require Import Num Species{extra}.
"""
