#!/usr/bin/env python3
"""Regenerate coq/gen/*.v from /repo's working tree.  Usage: gen_all.py <repo> <outdir> [targets...]
Exit status 0 = all requested files written; 2 = a translator refusal (printed)."""
import os
import sys

sys.path.insert(0, os.path.dirname(os.path.abspath(__file__)))
from py2coq import HEADER, FnCfg, Translator, Unsupported, a_of_fraction, cname  # noqa: E402


def write_if_changed(path, text):
    old = open(path).read() if os.path.exists(path) else None
    if old != text:
        with open(path, "w") as f:
            f.write(text)


DISPATCH = """
(* virtual dispatch of internal_partition_function / internal_energy on the object's class:
   written by the generator (not translated); tied to the implementation by the correspondence check *)
Definition Zint (s : species A) (T dE : A) : A :=
  match kind s with
  | KMono => mono_Zint s T dE | KDi => di_Zint s T dE
  | KPoly => poly_Zint s T dE | KElectron => electron_Zint s T dE
  end.
Definition Uint (s : species A) (T dE : A) : A :=
  match kind s with
  | KMono => mono_U s T dE | KDi => di_U s T dE
  | KPoly => poly_U s T dE | KElectron => electron_U s T dE
  end.
"""


def gen_species(repo, out):
    t = Translator(os.path.join(repo, "src/minplascalc/species.py"), "species.py")
    TdE = [("T", "A"), ("dE", "A")]
    t.function("BaseSpecies.translational_partition_function",
               FnCfg("translational_Z", [("T", "A")], self_var="s"))
    for cls, pre in (("Monatomic", "mono"), ("Diatomic", "di"), ("Polyatomic", "poly"), ("Electron", "electron")):
        calls = {("self", "internal_partition_function"): (f"{pre}_Zint", "A", ["A", "A"])}
        t.function(f"{cls}.internal_partition_function", FnCfg(f"{pre}_Zint", TdE, self_var="s"))
        t.function(f"{cls}.internal_energy", FnCfg(f"{pre}_U", TdE, self_var="s", calls=calls))
    t.out.append(DISPATCH)
    t.function("BaseSpecies.total_partition_function",
               FnCfg("total_Z", [("V", "A"), ("T", "A"), ("dE", "A")], self_var="s",
                     calls={("self", "internal_partition_function"): ("Zint", "A", ["A", "A"]),
                            ("self", "translational_partition_function"): ("translational_Z", "A", ["A"])}))
    write_if_changed(os.path.join(out, "GenSpecies.v"), t.render(HEADER.format(extra=""), "GenSpecies"))


def gen_radiation(repo, out):
    t = Translator(os.path.join(repo, "src/minplascalc/functions_radiation.py"), "functions_radiation.py")
    # `mix` is read through its temperature, species tuple and composition only; the
    # composition is a parameter here (K ties it to calculate_composition, C15's V to the solver)
    fields = {"T": ("mix_T", "A"), "species": ("mix_species", ("list", "species")),
              "calculate_composition()": ("mix_nd", ("list", "A"))}
    cfg = FnCfg("total_emission_coefficient", [("mix", ("obj", fields))],
                calls={("species", "internal_partition_function"): ("Zint N U", "A", ["A", "A"])},
                coq_params="(mix_T : A) (mix_species : list (species A)) (mix_nd : list A)")
    t.function("total_emission_coefficient", cfg)
    write_if_changed(os.path.join(out, "GenRadiation.v"),
                     t.render(HEADER.format(extra=" GenSpecies"), "GenRadiation"))


import ast  # noqa: E402


def coq_str(x):
    return '"' + x + '"'


def coq_list(xs):
    return "[" + "; ".join(xs) + "]"


def gen_speciesio(repo, out):
    """Structural summary of the species constructors, to_file and from_file (for C16): parameter lists,
    attribute-assignment lists, super().__init__ argument lists, from_file key lists and dispatch.  Fail-closed."""
    path = os.path.join(repo, "src/minplascalc/species.py")
    tree = ast.parse(open(path).read())

    def fail(node, what):
        raise Unsupported("species.py", node, what)

    classes = {n.name: n for n in tree.body if isinstance(n, ast.ClassDef)}
    funcs = {n.name: n for n in tree.body if isinstance(n, ast.FunctionDef)}

    def init_summary(cls):
        c = classes.get(cls) or fail(tree, f"class {cls} missing")
        init = next((n for n in c.body if isinstance(n, ast.FunctionDef) and n.name == "__init__"), None) or fail(c, "no __init__")
        a = init.args
        if a.vararg or a.kwarg or a.kwonlyargs or a.defaults or a.posonlyargs:
            fail(init, "constructor with defaults / *args / **kwargs")
        params = [x.arg for x in a.args][1:]
        assigns, super_args = [], None
        for st in init.body:
            if Translator.is_doc(st):
                continue
            if isinstance(st, ast.AnnAssign) and st.value is None:
                continue
            if isinstance(st, ast.Expr) and isinstance(st.value, ast.Call):
                f = st.value.func
                if isinstance(f, ast.Attribute) and f.attr == "__init__" and isinstance(f.value, ast.Call) and \
                        isinstance(f.value.func, ast.Name) and f.value.func.id == "super" and not st.value.keywords:
                    if super_args is not None or assigns:
                        fail(st, "super().__init__ must be the first effect")
                    args = st.value.args
                    if not all(isinstance(x, ast.Name) for x in args):
                        fail(st, "super().__init__ argument that is not a plain name")
                    super_args = [x.id for x in args]
                    continue
            if isinstance(st, ast.Assign) and len(st.targets) == 1:
                t, v = st.targets[0], st.value
                if isinstance(t, ast.Attribute) and isinstance(t.value, ast.Name) and t.value.id == "self":
                    if isinstance(v, ast.Call) and isinstance(v.func, ast.Name) and v.func.id == "deepcopy" and len(v.args) == 1:
                        v = v.args[0]
                    if isinstance(v, ast.Name) and v.id in params:
                        assigns.append((t.attr, v.id))
                        continue
            fail(st, "constructor statement outside the accepted forms (self.a = p | self.a = deepcopy(p) | super().__init__(p..))")
        return params, super_args, assigns

    out_lines = ["(* GENERATED by /verif/translator (gen_speciesio) — structural summary of species.py constructors and I/O. *)",
                 "From Coq Require Import List String ZArith.", "Import ListNotations.", "Open Scope string_scope.", ""]
    bp, bs, ba = init_summary("Species")
    if bs is not None:
        fail(classes["Species"], "Species.__init__ calls super().__init__")
    out_lines.append(f"Definition base_params : list string := {coq_list(map(coq_str, bp))}.")
    out_lines.append("Definition base_assigns : list (string * string) := " + coq_list(f"({coq_str(a)}, {coq_str(p)})" for a, p in ba) + ".")
    for cls, pre in (("Monatomic", "mono"), ("Diatomic", "di"), ("Polyatomic", "poly")):
        bases = [b.id for b in classes[cls].bases if isinstance(b, ast.Name)]
        if bases != ["Species"]:
            fail(classes[cls], f"{cls} does not derive from Species only")
        p, sa, asg = init_summary(cls)
        if sa is None:
            fail(classes[cls], f"{cls}.__init__ does not call super().__init__")
        out_lines.append(f"Definition {pre}_params : list string := {coq_list(map(coq_str, p))}.")
        out_lines.append(f"Definition {pre}_super_args : list string := {coq_list(map(coq_str, sa))}.")
        out_lines.append(f"Definition {pre}_assigns : list (string * string) := " + coq_list(f"({coq_str(a)}, {coq_str(q)})" for a, q in asg) + ".")
    # to_file: json.dump(self.__dict__, f, ...) in every branch
    tf = next((n for n in classes["Species"].body if isinstance(n, ast.FunctionDef) and n.name == "to_file"), None) or fail(tree, "to_file missing")
    dumps = [n for n in ast.walk(tf) if isinstance(n, ast.Call) and isinstance(n.func, ast.Attribute) and n.func.attr == "dump"]
    if not dumps:
        fail(tf, "to_file does not call json.dump")
    for d in dumps:
        a0 = d.args[0] if d.args else None
        if not (isinstance(a0, ast.Attribute) and a0.attr == "__dict__" and isinstance(a0.value, ast.Name) and a0.value.id == "self"):
            fail(d, "to_file dumps something other than self.__dict__")
        for kw in d.keywords:
            if kw.arg not in ("indent",):
                fail(d, f"json.dump keyword {kw.arg}")
    # from_file: json.load; number_atoms = sum(species_data["stoichiometry"].values()); if/elif/else returning constructor calls
    ff = funcs.get("from_file") or fail(tree, "from_file missing")
    body = [st for st in ff.body if not Translator.is_doc(st)]
    if not (len(body) == 3 and isinstance(body[0], ast.With) and isinstance(body[1], ast.Assign) and isinstance(body[2], ast.If)):
        fail(ff, "from_file is not `with open: load; number_atoms = ...; if/elif/else`")
    w = body[0]
    loads = [n for n in ast.walk(w) if isinstance(n, ast.Call) and isinstance(n.func, ast.Attribute) and n.func.attr == "load"]
    if len(loads) != 1 or len(w.body) != 1 or not isinstance(w.body[0], ast.Assign):
        fail(w, "from_file does not json.load once")
    dvar = w.body[0].targets[0].id
    na = body[1]
    want = f"sum({dvar}['stoichiometry'].values())"
    if ast.unparse(na.value) != want:
        fail(na, f"atom count is {ast.unparse(na.value)}, expected {want}")
    navar = na.targets[0].id
    dispatch, default = [], None

    def ctor_call(stmts):
        if len(stmts) != 1 or not isinstance(stmts[0], ast.Return) or not isinstance(stmts[0].value, ast.Call):
            fail(stmts[0], "from_file branch is not `return Class(...)`")
        c = stmts[0].value
        if c.keywords or not isinstance(c.func, ast.Name):
            fail(c, "constructor call with keywords")
        keys = []
        for a in c.args:
            if not (isinstance(a, ast.Subscript) and isinstance(a.value, ast.Name) and a.value.id == dvar and
                    isinstance(a.slice, ast.Constant) and isinstance(a.slice.value, str)):
                fail(a, "constructor argument that is not species_data[<key>]")
            keys.append(a.slice.value)
        return c.func.id, keys

    node = body[2]
    branch_keys = {}
    while True:
        t = node.test
        if not (isinstance(t, ast.Compare) and isinstance(t.left, ast.Name) and t.left.id == navar and len(t.ops) == 1 and
                isinstance(t.ops[0], ast.Eq) and isinstance(t.comparators[0], ast.Constant) and isinstance(t.comparators[0].value, int)):
            fail(t, "dispatch test is not `number_atoms == <int>`")
        cls, keys = ctor_call(node.body)
        dispatch.append((t.comparators[0].value, cls))
        branch_keys[cls] = keys
        if len(node.orelse) == 1 and isinstance(node.orelse[0], ast.If):
            node = node.orelse[0]
            continue
        cls, keys = ctor_call(node.orelse)
        default = cls
        branch_keys[cls] = keys
        break
    for cls, pre in (("Monatomic", "mono"), ("Diatomic", "di"), ("Polyatomic", "poly")):
        if cls not in branch_keys:
            fail(ff, f"from_file never constructs {cls}")
        out_lines.append(f"Definition {pre}_keys : list string := {coq_list(map(coq_str, branch_keys[cls]))}.")
    out_lines.append("Definition dispatch_table : list (Z * string) := " + coq_list(f"({n}%Z, {coq_str(c)})" for n, c in dispatch) + ".")
    out_lines.append(f"Definition dispatch_default : string := {coq_str(default)}.")
    # from_name: from_file(str(SPECIES_PATH / (name + ".json")))
    fn = funcs.get("from_name") or fail(tree, "from_name missing")
    rets = [n for n in ast.walk(fn) if isinstance(n, ast.Return)]
    if len(rets) != 1 or ast.unparse(rets[0].value) != "from_file(str(filename))":
        fail(fn, "from_name does not return from_file(str(filename))")
    fa = [n for n in fn.body if isinstance(n, ast.Assign)]
    if len(fa) != 1 or ast.unparse(fa[0].value) != "SPECIES_PATH / (name + '.json')":
        fail(fn, "from_name path is not SPECIES_PATH / (name + '.json')")
    out_lines.append("Definition from_name_is_from_file_of_database_path : bool := true.")
    write_if_changed(os.path.join(out, "GenSpeciesIO.v"), "\n".join(out_lines) + "\n")


def heat_capacity_def(t):
    """LTE.calculate_heat_capacity as a function of an enthalpy oracle H (the enthalpy of the mixture re-solved at the
    temperature it is given; which caches that evaluation refreshes is C03's model).  Only this statement shape is
    accepted -- save T; try: T := e1; a := enthalpy(); T := e2; b := enthalpy(); finally: T := saved; return e3 --
    anything else is refused."""
    fn = t.find("LTE.calculate_heat_capacity")
    args = [a.arg for a in fn.args.args]
    if args != ["self", "rel_delta_T"] or len(fn.args.defaults) != 1 or fn.args.kwonlyargs or fn.args.vararg or fn.args.kwarg:
        t.fail(fn, f"signature of calculate_heat_capacity is {args}")
    body = [st for st in fn.body if not t.is_doc(st)]

    def self_T(n):
        return isinstance(n, ast.Attribute) and isinstance(n.value, ast.Name) and n.value.id == "self" and n.attr == "T"

    def set_T(st):
        return isinstance(st, ast.Assign) and len(st.targets) == 1 and self_T(st.targets[0])

    def enth(st):
        return (isinstance(st, ast.Assign) and len(st.targets) == 1 and isinstance(st.targets[0], ast.Name)
                and isinstance(st.value, ast.Call) and not st.value.args and not st.value.keywords
                and isinstance(st.value.func, ast.Attribute) and st.value.func.attr == "calculate_enthalpy"
                and isinstance(st.value.func.value, ast.Name) and st.value.func.value.id == "self")

    ok = (len(body) == 3 and isinstance(body[0], ast.Assign) and len(body[0].targets) == 1
          and isinstance(body[0].targets[0], ast.Name) and self_T(body[0].value)
          and isinstance(body[1], ast.Try) and not body[1].handlers and not body[1].orelse
          and len(body[1].body) == 4 and set_T(body[1].body[0]) and enth(body[1].body[1])
          and set_T(body[1].body[2]) and enth(body[1].body[3])
          and len(body[1].finalbody) == 1 and set_T(body[1].finalbody[0])
          and isinstance(body[1].finalbody[0].value, ast.Name)
          and body[1].finalbody[0].value.id == body[0].targets[0].id
          and isinstance(body[2], ast.Return) and body[2].value is not None)
    if not ok:
        t.fail(fn, "calculate_heat_capacity does not have the shape save T / perturb / enthalpy / perturb / enthalpy / restore / return")
    saved = body[0].targets[0].id
    tr = body[1].body
    n1, n2 = tr[1].targets[0].id, tr[3].targets[0].id
    if len({saved, n1, n2, "rel_delta_T"}) != 4:
        t.fail(fn, "calculate_heat_capacity re-uses a local name")
    cfg = FnCfg("heat_capacity", [])
    env = {saved: "A", "rel_delta_T": "A"}
    for e in (tr[0].value, tr[2].value):
        if t.uses_self([e]):
            t.fail(e, "perturbed temperature reads the object")
    e1, ty1 = t.ex(tr[0].value, env, cfg)
    e2, ty2 = t.ex(tr[2].value, env, cfg)
    env2 = dict(env)
    env2[n1] = "A"
    env2[n2] = "A"
    # after the `finally` clause self.T is the saved temperature again
    env2["self"] = ("obj", {"T": (cname(saved), "A")})
    e3, ty3 = t.ex(body[2].value, env2, cfg)
    dflt = t.const_fraction(fn.args.defaults[0])
    if dflt is None:
        t.fail(fn, "default rel_delta_T is not a literal")
    t.out.append(f"Definition heat_capacity_default_delta : A := {a_of_fraction(dflt)}.\n")
    t.out.append(
        f"Definition heat_capacity (H : A -> A) (mix_T rel_delta_T : A) : A :=\n"
        f"  let {cname(saved)} := mix_T in\n"
        f"  let {cname(n1)} := H {t.inj(e1, ty1, fn)} in\n"
        f"  let {cname(n2)} := H {t.inj(e2, ty2, fn)} in\n"
        f"  {t.inj(e3, ty3, fn)}.\n")


def gen_mixture(repo, out):
    t = Translator(os.path.join(repo, "src/minplascalc/mixture.py"), "mixture.py")
    # `self` is read through T, the species tuple, the composition and the cached E0 / dE: parameters here.
    # (Which calls refresh those caches, and when, is C03's model; the numerical content is modelled here.)
    fields = {"T": ("mix_T", "A"), "species": ("mix_species", ("list", "species")),
              "calculate_composition()": ("mix_nd", ("list", "A")),
              "__E0": ("mix_E0", ("list", "A")), "__dE": ("mix_dE", ("list", "A"))}
    obj = ("obj", fields)
    t.function("LTE.calculate_density",
               FnCfg("density", [], coq_params="(mix_species : list (species A)) (mix_nd : list A)",
                     ), self_obj=obj)
    t.function("LTE.calculate_species_enthalpies",
               FnCfg("species_enthalpies", [], ret=("list", "A"),
                     coq_params="(mix_T : A) (mix_species : list (species A)) (mix_nd : list A) (mix_E0 mix_dE : list A)",
                     calls={("species", "internal_energy"): ("Uint N U", "A", ["A", "A"])}), self_obj=obj)
    fields2 = dict(fields)
    fields2["calculate_density()"] = ("(density mix_species mix_nd)", "A")
    fields2["calculate_species_enthalpies()"] = ("(species_enthalpies mix_T mix_species mix_nd mix_E0 mix_dE)", ("list", "A"))
    t.function("LTE.calculate_enthalpy",
               FnCfg("enthalpy", [],
                     coq_params="(mix_T : A) (mix_species : list (species A)) (mix_nd : list A) (mix_E0 mix_dE : list A)"),
               self_obj=("obj", fields2))
    heat_capacity_def(t)
    write_if_changed(os.path.join(out, "GenMixture.v"), t.render(HEADER.format(extra=" GenSpecies"), "GenMixture"))


QBLOCKS = {
    "_q00_jit": ["Q11"], "_q01_jit": ["Q11", "Q12"], "_q02_jit": ["Q11", "Q12", "Q13"],
    "_q03_jit": ["Q11", "Q12", "Q13", "Q14"], "_q11_jit": ["Q11", "Q12", "Q13", "Q22"],
    "_q12_jit": ["Q11", "Q12", "Q13", "Q14", "Q22", "Q23"],
    "_q13_jit": ["Q11", "Q12", "Q13", "Q14", "Q15", "Q22", "Q23", "Q24"],
    "_q22_jit": ["Q11", "Q12", "Q13", "Q14", "Q15", "Q22", "Q23", "Q24", "Q33"],
    "_q23_jit": ["Q11", "Q12", "Q13", "Q14", "Q15", "Q16", "Q22", "Q23", "Q24", "Q25", "Q33", "Q34"],
    "_q33_jit": ["Q11", "Q12", "Q13", "Q14", "Q15", "Q16", "Q17", "Q22", "Q23", "Q24", "Q25", "Q26", "Q33", "Q34", "Q35", "Q44"],
    "_qhat00_jit": ["Q11", "Q22"], "_qhat01_jit": ["Q11", "Q12", "Q22", "Q23"],
    "_qhat11_jit": ["Q11", "Q12", "Q13", "Q22", "Q23", "Q24", "Q33"],
}


RECURSION_SHAPE = """if l == 1 and s >= 6 or (l == 2 and s >= 5) or (l == 3 and s >= 4) or (l == 4 and s >= 5):
    negT, posT = (T - 0.5, T + 0.5)
    return {f}(species_i, species_j, l, s - 1, T) + T / (s + 1) * ({f}(species_i, species_j, l, s - 1, posT) - {f}(species_i, species_j, l, s - 1, negT))"""


def fit_tables(repo):
    """the Laricchiuta coefficient tables c_nn / c_in, read from the module as Python evaluates them, rendered exactly (decimal reading)"""
    import importlib
    import sys
    from fractions import Fraction
    sys.path.insert(0, os.path.join(repo, "src"))
    for m in [k for k in sys.modules if k.startswith("minplascalc")]:
        del sys.modules[m]
    try:
        ft = importlib.import_module("minplascalc.functions_transport")
    except Exception as e:  # noqa: BLE001
        raise Unsupported("functions_transport.py", None, f"module does not import: {type(e).__name__}: {e}")
    out = []
    for nm in ("c_nn", "c_in"):
        arr = getattr(ft, nm)
        rows = []
        for l in range(arr.shape[0]):
            for s_ in range(arr.shape[1]):
                blk = arr[l, s_]
                if blk != blk if False else (blk[0][0] != blk[0][0]):
                    continue
                trip = []
                for k in range(7):
                    cs = []
                    for c in blk[k]:
                        fr = Fraction(repr(float(c)))
                        cs.append(f"(ndiv N (nofZ N ({fr.numerator})%Z) (nofZ N {fr.denominator}%Z))" if fr.denominator != 1 else f"(nofZ N ({fr.numerator})%Z)")
                    trip.append("(" + ", ".join(cs) + ")")
                rows.append(f"  | {l + 1}%nat, {s_ + 1}%nat => [" + "; ".join(trip) + "]")
        out.append(f"Definition {nm}_tab (l s : nat) : list (A * A * A) :=\n  match l, s with\n" + "\n".join(rows) + "\n  | _, _ => []\n  end.\n")
    return "\n".join(out)


def gen_transport(repo, out):
    import ast
    t = Translator(os.path.join(repo, "src/minplascalc/functions_transport.py"), "functions_transport.py")
    for fn, qs in QBLOCKS.items():
        t.function_qblock(fn, fn.strip("_").replace("_jit", ""), qs)
    # ---- collision integrals ----
    t.globals_env = {"ke": ("(ke_c U)", "A"), "egamma": ("(egamma U)", "A")}
    t.out.append(fit_tables(repo))
    t.out.append("Definition fit_coeffs (tab : list (A * A * A)) (beta_value : A) : list A :=\n"
                 "  map (fun c => let '(c0, c1, c2) := c in nadd N (nadd N c0 (nmul N c1 beta_value)) (nmul N c2 (npow N beta_value 2))) tab.\n")
    sp2 = [("species_i", "species"), ("species_j", "species")]
    poison = ("(ndiv N (nofZ N 0%Z) (nofZ N 0%Z))", "A")
    t.function("pot_parameters_neut_neut", FnCfg("pot_nn", sp2, ret=("tuple", ["A", "A"]),
                                                 extra_env={"__raise__": (f"({poison[0]}, {poison[0]})", ("tuple", ["A", "A"]))}))
    t.function("pot_parameters_ion_neut", FnCfg("pot_in", [("species_ion", "species"), ("species_neutral", "species")], ret=("tuple", ["A", "A"])))
    t.function("beta", FnCfg("beta_par", sp2))
    t.function("x0_neut_neut", FnCfg("x0_nn", [("beta_value", "A")]))
    t.function("x0_ion_neut", FnCfg("x0_in", [("beta_value", "A")]))
    t.function("cl_charged", FnCfg("cl_charged", sp2 + [("n_i", "A"), ("n_j", "A"), ("T", "A")]))
    t.function("A", FnCfg("A_fit", [("ionisation_energy", "A")]))
    t.function("B", FnCfg("B_fit", [("ionisation_energy", "A")]))
    t.known_calls.update({
        "pot_parameters_neut_neut": ("pot_nn", ("tuple", ["A", "A"]), ["species", "species"]),
        "pot_parameters_ion_neut": ("pot_in", ("tuple", ["A", "A"]), ["species", "species"]),
        "beta": ("beta_par", "A", ["species", "species"]), "x0_neut_neut": ("x0_nn", "A", ["A"]), "x0_ion_neut": ("x0_in", "A", ["A"]),
        "cl_charged": ("cl_charged", "A", ["species", "species", "A", "A", "A"]),
        "A": ("A_fit", "A", ["A"]), "B": ("B_fit", "A", ["A"]),
        "psiconst": ("psiconst N", "A", ["nat"]), "sum1": ("sum1 N U", "A", ["nat"]), "sum2": ("sum2 N", "A", ["nat"]),
    })
    # Qe: the isinstance chain on the cross-section data is checked syntactically; the closed form is translated with D1..D4 bound
    fn = t.find("Qe")
    body = [b for b in fn.body if not t.is_doc(b)]
    want = ("if isinstance(species_i.electron_cross_section, (tuple, list)):\n    D1, D2, D3, D4 = species_i.electron_cross_section\n"
            "elif isinstance(species_i.electron_cross_section, float):\n    D1, D2, D3, D4 = (species_i.electron_cross_section, 0, 0, 0)\n"
            "else:\n    raise ValueError('Invalid electron cross section data.')")
    if not body or ast.unparse(body[0]) != want:
        raise Unsupported("functions_transport.py", fn, "Qe does not start with the expected unpacking of electron_cross_section")
    tail = ast.FunctionDef(name="Qe_closed", args=fn.args, body=body[1:], decorator_list=[], lineno=fn.lineno)
    t.tree.body.append(tail)
    cfg = FnCfg("Qe_closed", [("species_i", "species"), ("l", "nat"), ("s", "nat"), ("T", "A")],
                extra_env={"D1": ("D1", "A"), "D2": ("D2", "A"), "D3": ("D3", "A"), "D4": ("D4", "A")},
                coq_params="(D1 D2 D3 D4 : A) (species_i : species A) (l s_ : nat) (T : A)")
    t.function("Qe_closed", cfg)
    t.out.append("Definition Qe (species_i : species A) (l s_ : nat) (T : A) : A :=\n"
                 "  match electron_cross_section species_i with\n"
                 "  | Some (D1, D2, D3, D4) => Qe_closed D1 D2 D3 D4 species_i l s_ T\n"
                 "  | None => ndiv N (nofZ N 0%Z) (nofZ N 0%Z)   (* ValueError *)\n  end.\n")
    # Qnn / Qin: recursion guard checked syntactically (its shape IS the documented recursion); the fitted part is translated
    for py, coq, tab in (("Qnn", "Qnn", "c_nn"), ("Qin", "Qin", "c_in")):
        fn = t.find(py)
        body = [b for b in fn.body if not t.is_doc(b)]
        if not body or ast.unparse(body[0]) != RECURSION_SHAPE.format(f=py):
            raise Unsupported("functions_transport.py", fn, f"{py} does not start with the documented recursion guard")
        guard = body[0].test
        gtxt, gty = t.ex(guard, {"l": "nat", "s": "nat"}, FnCfg("g", []))
        t.out.append(f"Definition {coq}_guard (l s_ : nat) : bool := {gtxt}.\n")
        fit = ast.FunctionDef(name=f"{py}_fit", args=fn.args, body=body[1:], decorator_list=[], lineno=fn.lineno)
        t.tree.body.append(fit)
        t.np_dot_tab = tab
        t.function(f"{py}_fit", FnCfg(f"{coq}_fit", sp2 + [("l", "nat"), ("s", "nat"), ("T", "A")]))
        t.out.append(f"(* orders beyond the fitted table: Q(l,s,T) = Q(l,s-1,T) + T/(s+1) (Q(l,s-1,T+1/2) - Q(l,s-1,T-1/2)) *)\n"
                     f"Definition {coq} (species_i species_j : species A) (l s_ : nat) (T : A) : A :=\n"
                     f"  Q_recursion N ({coq}_guard l) ({coq}_fit species_i species_j l) 8 s_ T.\n")
    t.known_calls.update({"Qe": ("Qe", "A", ["species", "nat", "nat", "A"]),
                          "Qnn": ("Qnn", "A", ["species", "species", "nat", "nat", "A"]),
                          "Qin": ("Qin", "A", ["species", "species", "nat", "nat", "A"])})
    t.function("Qtr", FnCfg("Qtr", sp2 + [("s", "nat"), ("T", "A")]))
    t.known_calls["Qtr"] = ("Qtr", "A", ["species", "species", "nat", "A"])
    t.function("Qc", FnCfg("Qc", [("species_i", "species"), ("n_i", "A"), ("species_j", "species"), ("n_j", "A"), ("l", "nat"), ("s", "nat"), ("T", "A")]))
    t.known_calls["Qc"] = ("Qc", "A", ["species", "A", "species", "A", "nat", "nat", "A"])
    qij_params = [("species_i", "species"), ("ni", "A"), ("species_j", "species"), ("nj", "A"), ("l", "nat"), ("s", "nat"), ("T", "A")]
    t.function("Qij", FnCfg("Qij", qij_params, extra_env={"__raise__": poison}))
    # the same decision chain with class tags instead of values (for the dispatch theorem)
    t.class_mode = True
    t.function("Qij", FnCfg("Qij_class", qij_params, ret="qclass", extra_env={"__raise__": ("CUnknown", "qclass")}))
    t.class_mode = False
    # ---- right-hand sides and final formulae of viscosity / DTi / Dij / electrical_conductivity (index form) ----
    import finalforms
    t.out.extend(finalforms.FF(t).all())
    write_if_changed(os.path.join(out, "GenTransport.v"), t.render(HEADER.format(extra=" GenSpecies RefEnergy TransportLib"), "GenTransport"))


def gen_effects(repo, out):
    import effects
    write_if_changed(os.path.join(out, "GenEffects.v"), effects.generate(repo))


TARGETS = {"transport": gen_transport, "mixture": gen_mixture, "effects": gen_effects, "species": gen_species, "radiation": gen_radiation, "speciesio": gen_speciesio}
FILES = {"effects": "GenEffects.v", "speciesio": "GenSpeciesIO.v", "species": "GenSpecies.v", "radiation": "GenRadiation.v", "mixture": "GenMixture.v", "transport": "GenTransport.v"}

if __name__ == "__main__":
    repo, out = sys.argv[1], sys.argv[2]
    names = sys.argv[3:] or list(TARGETS)
    os.makedirs(out, exist_ok=True)
    rc = 0
    for nm in names:
        try:
            TARGETS[nm](repo, out)
            print(f"generated {nm}")
        except Exception as e:  # noqa: BLE001  (Unsupported = a construct outside the subset; anything else = a source shape the translator has no rule for)
            if not isinstance(e, Unsupported):
                e = RuntimeError(f"source shape outside the translated subset ({type(e).__name__}: {e})")
            print(f"TRANSLATOR-REFUSAL {nm}: {e}")
            rc = 2
            # fail closed: never leave a stale model of an older source behind
            msg = str(e).replace("*)", "* )")
            write_if_changed(os.path.join(out, FILES[nm]),
                             f"(* TRANSLATOR REFUSAL: {msg} *)\nDefinition translator_refused : False := I.\n")
    sys.exit(rc)
