#!/usr/bin/env python3
"""Regenerate coq/gen/*.v from /repo's working tree.  Usage: gen_all.py <repo> <outdir> [targets...]
Exit status 0 = all requested files written; 2 = a translator refusal (printed)."""
import os
import sys

sys.path.insert(0, os.path.dirname(os.path.abspath(__file__)))
from py2coq import HEADER, FnCfg, Translator, Unsupported  # noqa: E402


def write_if_changed(path, text):
    old = open(path).read() if os.path.exists(path) else None
    if old != text:
        with open(path, "w") as f:
            f.write(text)


DISPATCH = """
(* virtual dispatch of internal_partition_function / internal_energy on the object's class:
   written by the generator (not translated); tied to the implementation by the correspondence check *)
Definition Zint (s : species A) (T dE : A) : A :=
  match kind s with
  | KMono => mono_Zint s T dE | KDi => di_Zint s T dE
  | KPoly => poly_Zint s T dE | KElectron => electron_Zint s T dE
  end.
Definition Uint (s : species A) (T dE : A) : A :=
  match kind s with
  | KMono => mono_U s T dE | KDi => di_U s T dE
  | KPoly => poly_U s T dE | KElectron => electron_U s T dE
  end.
"""


def gen_species(repo, out):
    t = Translator(os.path.join(repo, "src/minplascalc/species.py"), "species.py")
    TdE = [("T", "A"), ("dE", "A")]
    t.function("BaseSpecies.translational_partition_function",
               FnCfg("translational_Z", [("T", "A")], self_var="s"))
    for cls, pre in (("Monatomic", "mono"), ("Diatomic", "di"), ("Polyatomic", "poly"), ("Electron", "electron")):
        calls = {("self", "internal_partition_function"): (f"{pre}_Zint", "A", ["A", "A"])}
        t.function(f"{cls}.internal_partition_function", FnCfg(f"{pre}_Zint", TdE, self_var="s"))
        t.function(f"{cls}.internal_energy", FnCfg(f"{pre}_U", TdE, self_var="s", calls=calls))
    t.out.append(DISPATCH)
    t.function("BaseSpecies.total_partition_function",
               FnCfg("total_Z", [("V", "A"), ("T", "A"), ("dE", "A")], self_var="s",
                     calls={("self", "internal_partition_function"): ("Zint", "A", ["A", "A"]),
                            ("self", "translational_partition_function"): ("translational_Z", "A", ["A"])}))
    write_if_changed(os.path.join(out, "GenSpecies.v"), t.render(HEADER.format(extra=""), "GenSpecies"))


def gen_radiation(repo, out):
    t = Translator(os.path.join(repo, "src/minplascalc/functions_radiation.py"), "functions_radiation.py")
    # `mix` is read through its temperature, species tuple and composition only; the
    # composition is a parameter here (K ties it to calculate_composition, C15's V to the solver)
    fields = {"T": ("mix_T", "A"), "species": ("mix_species", ("list", "species")),
              "calculate_composition()": ("mix_nd", ("list", "A"))}
    cfg = FnCfg("total_emission_coefficient", [("mix", ("obj", fields))],
                calls={("species", "internal_partition_function"): ("Zint N U", "A", ["A", "A"])},
                coq_params="(mix_T : A) (mix_species : list (species A)) (mix_nd : list A)")
    t.function("total_emission_coefficient", cfg)
    write_if_changed(os.path.join(out, "GenRadiation.v"),
                     t.render(HEADER.format(extra=" GenSpecies"), "GenRadiation"))


TARGETS = {"species": gen_species, "radiation": gen_radiation}
FILES = {"species": "GenSpecies.v", "radiation": "GenRadiation.v", "mixture": "GenMixture.v", "transport": "GenTransport.v"}

if __name__ == "__main__":
    repo, out = sys.argv[1], sys.argv[2]
    names = sys.argv[3:] or list(TARGETS)
    os.makedirs(out, exist_ok=True)
    rc = 0
    for nm in names:
        try:
            TARGETS[nm](repo, out)
            print(f"generated {nm}")
        except Unsupported as e:
            print(f"TRANSLATOR-REFUSAL {nm}: {e}")
            rc = 2
            # fail closed: never leave a stale model of an older source behind
            msg = str(e).replace("*)", "* )")
            write_if_changed(os.path.join(out, FILES[nm]),
                             f"(* TRANSLATOR REFUSAL: {msg} *)\nDefinition translator_refused : False := I.\n")
    sys.exit(rc)
